"""C17 native oracle (bounded): real layers vs hand-driven twin components; clear at every position then replay."""
from __future__ import annotations

import itertools

from .common import torch
from inferno.neural import Biclique, DeltaCurrent, DeltaPlusCurrent, DoubleExponentialCurrent, LIF, LinearDense, RecurrentSerial, Serial, SingleExponentialCurrent


def conn(seed, syn="delta", delay=None, B=2):
    torch.manual_seed(seed)
    s = {"delta": lambda: DeltaCurrent.partialconstructor(20.0), "single": lambda: SingleExponentialCurrent.partialconstructor(20.0, 5.0),
         "double": lambda: DoubleExponentialCurrent.partialconstructor(20.0, 6.0, 2.0), "deltaplus": lambda: DeltaPlusCurrent.partialconstructor(20.0)}[syn]()
    return LinearDense((3,), (2,), 1.0, synapse=s, delay=delay, batch_size=B)


def lif(B=2):
    return LIF((2,), 1.0, rest_v=-60.0, reset_v=-65.0, thresh_v=-55.0, refrac_t=2.0, time_constant=10.0, resistance=1.0, batch_size=B)


def inputs(T, B=2, seed=0):
    g = torch.Generator().manual_seed(seed)
    return [(torch.rand(B, 3, generator=g) < 0.5).float() for _ in range(T)]


def not_at_rest(comps):
    """names of the components whose state differs from a freshly built one (synapse current / spike history, neuron
    voltage / refractory counter)"""
    bad = []
    for name, m in comps:
        if hasattr(m, "synapse"):
            syn = m.synapse
            parts = [getattr(syn, a) for a in ("pos_current_", "neg_current_", "current_") if hasattr(syn, a)]
            dirty = any(r.value is not None and float(r.value.abs().max()) != 0.0 for r in parts)
            if float(syn.current.abs().max()) != 0.0 or bool(syn.spike.any()) or dirty:
                bad.append(name)
        else:
            f = lif(m.batchsz)
            if not torch.equal(m.voltage, f.voltage) or not torch.equal(m.refrac, f.refrac) or bool(m.spike.any()):
                bad.append(name)
    return bad


def serial_case(syn, delay, k):
    xs = inputs(9)
    lc, ln = conn(1, syn, delay), lif()
    lay = Serial(lc, ln, lambda x: x * 1.5)
    tw_c, tw_n = conn(1, syn, delay), lif()
    for t, x in enumerate(xs):
        if t == k:
            try:
                lay.clear()
            except Exception as e:
                return {"what": "C17/serial/clear_exception", "input": dict(syn=syn, delay=delay, k=k), "expected": "ok", "actual": f"{type(e).__name__}: {e}"}
            tw_c, tw_n = conn(1, syn, delay), lif()
            bad = not_at_rest([("connection", lc), ("neuron", ln)]) if t > 0 else []
            if bad:
                return {"what": "C17/serial/clear_leaves_component_state", "input": dict(syn=syn, delay=delay, k=k), "expected": "connection (every synaptic record) and neuron at rest", "actual": bad}
        out = lay(x)
        exp = tw_n(tw_c(x) * 1.5)
        if not torch.equal(out, exp):
            return {"what": "C17/serial/output_or_replay_after_clear", "input": dict(syn=syn, delay=delay, k=k, step=t), "expected": exp.tolist(), "actual": out.tolist()}
        if tuple(out.shape) != (2, 2):
            return {"what": "C17/serial/shape", "input": dict(syn=syn), "expected": [2, 2], "actual": list(out.shape)}
    return None


def biclique_case(combine, order):
    xs = inputs(5)
    mk = lambda: {k: conn(i + 1) for i, k in enumerate("abc")}  # noqa: E731
    posts = {"a": (lambda x: x * 2.0), "b": (lambda x: 1.5 - x), "c": None}
    pres = {"x": None, "y": (lambda x: x * 0.5)}
    custom = (lambda tensors, **kw: tensors["a"] - tensors["b"] + 2 * tensors["c"])
    cs, ns = mk(), {"x": lif(), "y": lif()}
    lay = Biclique([(k, cs[k]) if posts[k] is None else (k, cs[k], posts[k]) for k in "abc"], [(k, ns[k]) if pres[k] is None else (k, ns[k], pres[k]) for k in "xy"], custom if combine == "custom" else combine)
    tc, tn = mk(), {"x": lif(), "y": lif()}
    for t, x in enumerate(xs):
        ins = {k: (x + (0.0 if k == "a" else 1.0 if k == "b" else 0.5),) for k in order}
        out = lay(ins)
        tr = {k: (posts[k] or (lambda v: v))(tc[k](*ins[k])) for k in "abc"}
        st = torch.stack([tr[k] for k in "abc"], 0)
        comb = {"sum": st.sum(0), "mean": st.mean(0), "prod": st.prod(0), "min": st.amin(0), "max": st.amax(0)}.get(combine)
        if combine == "custom":
            comb = custom(tr)
        for n in "xy":
            exp = tn[n]((pres[n] or (lambda v: v))(comb))
            if tuple(out[n].shape) != (2, 2):
                return {"what": "C17/biclique/shape", "input": dict(combine=combine, order=list(order)), "expected": [2, 2], "actual": list(out[n].shape)}
            if not torch.equal(out[n], exp):
                return {"what": "C17/biclique/wiring", "input": dict(combine=combine, order=list(order), step=t, neuron=n), "expected": exp.tolist(), "actual": out[n].tolist()}
    try:
        lay.clear()
    except Exception as e:
        return {"what": "C17/biclique/clear_exception", "input": dict(combine=combine), "expected": "ok", "actual": f"{type(e).__name__}: {e}"}
    bad = not_at_rest([(k, cs[k]) for k in "abc"] + [(k, ns[k]) for k in "xy"])
    if bad:
        return {"what": "C17/biclique/clear_misses_components", "input": dict(combine=combine, connections=3, neurons=2), "expected": "every connection and neuron group at rest", "actual": bad}
    return None


def recurrent_case(k):
    xs = inputs(8)
    mk = lambda: (conn(1), LinearDense((2,), (2,), 1.0, synapse=DeltaCurrent.partialconstructor(20.0), batch_size=2), LinearDense((2,), (2,), 1.0, synapse=DeltaCurrent.partialconstructor(20.0), batch_size=2), lif(), lif())  # noqa: E731
    torch.manual_seed(5)
    a = mk()
    torch.manual_seed(5)
    b = mk()
    lay = RecurrentSerial(*a)
    cff, clat, cfb, nff, nfb = b
    fbprev = None
    for t, x in enumerate(xs):
        if t == k:
            try:
                lay.clear()
            except Exception as e:
                return {"what": "C17/recurrent/clear_exception", "input": dict(k=k), "expected": "ok", "actual": f"{type(e).__name__}: {e}"}
            for m in b:
                m.clear()
            fbprev = None
            bad = not_at_rest(list(zip(("feedforward", "lateral", "feedback", "ff_neuron", "fb_neuron"), a)))
            if bad and t > 0:
                return {"what": "C17/recurrent/clear_misses_components", "input": dict(k=k), "expected": "every connection and neuron group at rest", "actual": bad}
        ff, fb = lay(x)
        if fbprev is None:
            fbprev = torch.zeros(2, 2, dtype=torch.bool)
        eff = nff(cff(x) + cfb(fbprev))
        efb = nfb(clat(eff))
        fbprev = efb
        if not torch.equal(ff, eff) or not torch.equal(fb, efb):
            return {"what": "C17/recurrent/wiring_or_replay_after_clear", "input": dict(k=k, step=t), "expected": [eff.tolist(), efb.tolist()], "actual": [ff.tolist(), fb.tolist()]}
    return None


def recurrent_spike_paths(refrac_t):
    """RecurrentSerial feeds the lateral connection with the feed-forward population's spikes of THIS step and the
    feedback connection with the feedback population's spikes of the PREVIOUS step: checked on the tensors the
    connections actually receive (forward pre-hooks), for a refractory period of `refrac_t` ms (dt = 1)"""
    mkl = lambda: LIF((2,), 1.0, rest_v=-60.0, reset_v=-65.0, thresh_v=-55.0, refrac_t=refrac_t, time_constant=10.0, resistance=1.0, batch_size=2)  # noqa: E731
    mkc = lambda i: LinearDense((i,), (2,), 1.0, synapse=DeltaCurrent.partialconstructor(20.0), batch_size=2)  # noqa: E731
    torch.manual_seed(5)
    cff, clat, cfb, nff, nfb = mkc(3), mkc(2), mkc(2), mkl(), mkl()
    lay = RecurrentSerial(cff, clat, cfb, nff, nfb)
    got = {"lat": [], "fb": []}
    clat.register_forward_pre_hook(lambda m, a: got["lat"].append(a[0].clone()))
    cfb.register_forward_pre_hook(lambda m, a: got["fb"].append(a[0].clone()))
    prev_fb = None
    inp = dict(refrac_t=refrac_t)
    for t, x in enumerate(inputs(10)):
        ff, fb = lay(x)
        lat_in = got["lat"][-1].bool()
        if not torch.equal(lat_in, ff.bool()):
            return {"what": "C17/recurrent/lateral_input_is_not_the_feedforward_output", "input": dict(inp, step=t), "expected": ff.tolist(), "actual": lat_in.tolist()}
        if prev_fb is not None and got["fb"] and not torch.equal(got["fb"][-1].bool(), prev_fb.bool()):
            return {"what": "C17/recurrent/feedback_input_is_not_the_previous_feedback_output", "input": dict(inp, step=t), "expected": prev_fb.tolist(), "actual": got["fb"][-1].bool().tolist()}
        prev_fb = fb
    return None


def recurrent_kwargs_case():
    """keyword arguments given to RecurrentSerial for individual components reach exactly that component (recorded by
    thin subclasses of the real LIF / LinearDense)"""
    seen = {}

    class RLIF(LIF):
        def forward(self, inputs, **kw):
            seen[self._tag] = dict(kw)
            return super().forward(inputs, **{k: v for k, v in kw.items() if k in ("refrac_lock",)})

    class RDense(LinearDense):
        def forward(self, *inputs, **kw):
            seen[self._tag] = dict(kw)
            return super().forward(*inputs)

    def mkc(i, tag):
        c_ = RDense((i,), (2,), 1.0, synapse=DeltaCurrent.partialconstructor(20.0), batch_size=2)
        c_._tag = tag
        return c_

    def mkn(tag):
        n_ = RLIF((2,), 1.0, rest_v=-60.0, reset_v=-65.0, thresh_v=-55.0, refrac_t=2.0, time_constant=10.0, resistance=1.0, batch_size=2)
        n_._tag = tag
        return n_

    lay = RecurrentSerial(mkc(3, "ff"), mkc(2, "lat"), mkc(2, "fb"), mkn("nff"), mkn("nfb"))
    want = {"ff": {"a": 1}, "lat": {"b": 2}, "fb": {"c": 3}, "nff": {"refrac_lock": True}, "nfb": {"refrac_lock": False, "tag": 7}}
    for x in inputs(2):
        seen.clear()
        lay(x, feedfwd_connection_kwargs=want["ff"], lateral_connection_kwargs=want["lat"], feedback_connection_kwargs=want["fb"], feedfwd_neuron_kwargs=want["nff"], feedback_neuron_kwargs=want["nfb"])
        if seen != want:
            return {"what": "C17/recurrent/keyword_arguments_do_not_reach_their_component", "input": dict(given={k: str(v) for k, v in want.items()}), "expected": {k: str(v) for k, v in want.items()}, "actual": {k: str(v) for k, v in seen.items()}}
    return None


def neuron_clear_case(cls):
    """every shipped neuron class: after some driven steps, clear() leaves voltage, refractory counter and spike flag (and,
    with keep_adaptations=False, the adaptations) exactly as a freshly built neuron has them"""
    from . import c03

    torch.manual_seed(3)
    n = c03.mk(cls, 1.0, 2.0)
    n.eval()
    for _ in range(7):
        n(torch.rand(2, 3) * 60.0 - 10.0)
    for kw in ({}, {"keep_adaptations": False}):
        try:
            n.clear(**kw)
        except Exception as e:  # noqa: BLE001
            return {"what": "C17/neuron/clear_exception", "input": dict(cls=cls, kwargs=kw), "expected": "ok", "actual": f"{type(e).__name__}: {e}"}
        f = c03.mk(cls, 1.0, 2.0)
        bad = [a for a in ("voltage", "refrac") if not torch.equal(getattr(n, a), getattr(f, a))]
        if bool(n.spike.any()):
            bad.append("spike")
        if kw and hasattr(n, "adaptation") and not torch.equal(n.adaptation, f.adaptation):
            bad.append("adaptation")
        if bad:
            return {"what": "C17/neuron/clear_is_not_the_fresh_state", "input": dict(cls=cls, kwargs=kw), "expected": "state of a freshly built neuron", "actual": bad}
    return None


def sweep(tier="quick", seed=0, unsupported=()):
    failures, cases = [], 0

    def add(f):
        if f is not None and not any(x["what"] == f["what"] for x in failures):
            failures.append(f)

    for syn, delay in (("delta", None), ("single", None), ("delta", 2.0), ("double", None), ("double", 2.0), ("deltaplus", 2.0)):
        for k in range(0, 9, 2 if tier == "quick" else 1):
            cases += 1
            add(serial_case(syn, delay, k))
    for combine in ("sum", "mean", "prod", "min", "max", "custom"):
        for order in (("a", "b", "c"), ("c", "a", "b"), ("b", "c", "a")):
            cases += 1
            add(biclique_case(combine, order))
    for k in range(0, 8, 2 if tier == "quick" else 1):
        cases += 1
        add(recurrent_case(k))
    cases += 1
    add(recurrent_kwargs_case())
    for cls in ("LIF", "ALIF", "GLIF1", "GLIF2", "QIF", "Izhikevich", "EIF", "AdEx"):
        cases += 1
        f = neuron_clear_case(cls)
        if f is not None and not any(x["what"] == f["what"] and x["input"].get("cls") == cls for x in failures):
            failures.append(f)
    for rt in (0.0, 1.0, 3.0):
        cases += 1
        f = recurrent_spike_paths(rt)
        if f is not None and not any(x["what"] == f["what"] and x["input"].get("refrac_t") == rt for x in failures):
            failures.append(f)
    return {"standins": [{"function": "Serial / Biclique (6 combine modes, permuted input order, differing transforms) / RecurrentSerial vs hand-driven identically seeded twin components; clear() at position k then replay", "domain": "3 synapse/delay settings x clear positions; 6 combine modes x 3 input orders; 4-8 clear positions", "cases": cases, "proved": False, "label": "bounded"}], "failures": failures}


def replay(contract, label, model, note=""):
    r = sweep("quick", 0)
    # never the recorded finding D22 (refrac_t = 0)
    fs = [f for f in r["failures"] if not (f["what"].startswith("C17/recurrent/lateral_input") and f.get("input", {}).get("refrac_t") == 0)]
    cls = contract.split(".")[0]
    if contract.endswith(".clear"):
        hit = [f for f in fs if f["what"].startswith("C17/neuron/") and f["input"].get("cls") == cls]
        if hit:
            return {"reproduced": True, "failure": hit[0], "concrete": hit[0]["input"]}
    if cls in ("LIF", "GLIF1", "QIF", "EIF", "ALIF", "GLIF2", "Izhikevich", "AdEx") and not any("recurrent" in f["what"] or "neuron" in str(f.get("actual")) for f in fs):
        # a neuron step contract shared from C03: its own oracle drives the real class
        from . import c03

        r3 = c03.replay(contract, label, model, note)
        if r3 and r3.get("reproduced"):
            return r3
    if fs:
        pref = [f for f in fs if "recurrent" in f["what"]] if cls in ("LIF", "GLIF1", "QIF", "EIF", "ALIF", "GLIF2", "Izhikevich", "AdEx") else []
        f0 = (pref or fs)[0]
        return {"reproduced": True, "failure": f0, "concrete": f0["input"]}
    return {"reproduced": False, "search": {"points_tried": r["standins"][0]["cases"]}}


def _unused_replay(contract, label, model, note=""):
    r = sweep("quick", 0)
    if r["failures"]:
        return {"reproduced": True, "failure": r["failures"][0], "concrete": r["failures"][0]["input"]}
    return {"reproduced": False, "search": {"points_tried": r["standins"][0]["cases"]}}


def replay_native(rp):
    r = sweep("quick", 0)
    hit = [f for f in r["failures"] if f["what"] == rp.get("what")]
    return {"reproduced": bool(hit), "failure": hit[0] if hit else None}
