"""C20 native oracle (bounded): density integrals / sums / moments, mv round trips, isi, Victor-Purpura metric laws."""
from __future__ import annotations

import itertools
import math
import random

from .common import torch
import inferno
from inferno.stats import LogNormal, Normal, Poisson


def _f(what, inp, exp, act):
    return {"what": f"C20/{what}", "input": inp, "expected": exp, "actual": act}


def dist_checks(tier):
    out, cases = [], 0
    for lam in (0.1, 1.0, 5.0, 30.0):
        ks = torch.arange(0, 200, dtype=torch.float64)
        pmf = Poisson.pmf(ks, torch.tensor(lam, dtype=torch.float64)).double()
        cases += 4
        if abs(pmf.sum().item() - 1) > 1e-4:
            out.append(_f("Poisson/pmf_sums_to_one", dict(rate=lam), 1.0, pmf.sum().item()))
        if abs((pmf * ks).sum().item() - Poisson.mean(torch.tensor(lam)).item()) > 1e-3 * max(1, lam):
            out.append(_f("Poisson/mean_moment", dict(rate=lam), lam, (pmf * ks).sum().item()))
        var = (pmf * (ks - lam) ** 2).sum().item()
        if abs(var - Poisson.variance(torch.tensor(lam)).item()) > 1e-3 * max(1, lam):
            out.append(_f("Poisson/variance_moment", dict(rate=lam), lam, var))
        c = torch.cumsum(pmf, 0)
        cdf = Poisson.cdf(ks[:40], torch.tensor(lam)).double()
        if (c[:40] - cdf).abs().max().item() > 1e-4:
            out.append(_f("Poisson/cdf_is_cumulative_pmf", dict(rate=lam), "cumsum(pmf)", (c[:40] - cdf).abs().max().item()))
        lc = Poisson.logcdf(ks[:10], torch.tensor(lam)).double()
        if (lc - torch.log(cdf[:10])).abs().max().item() > 1e-4:
            out.append(_f("Poisson/logcdf", dict(rate=lam), "log cdf", "differs"))
    # degenerate rate 0 (a valid parameter): all mass at 0, exp(logpmf) = pmf without NaN
    cases += 1
    ks0 = torch.arange(0, 6, dtype=torch.float64)
    zero = torch.tensor(0.0, dtype=torch.float64)
    pmf0, lp0 = Poisson.pmf(ks0, zero).double(), Poisson.logpmf(ks0, zero).double()
    exp0 = torch.tensor([1.0, 0, 0, 0, 0, 0], dtype=torch.float64)
    if torch.isnan(pmf0).any() or (pmf0 - exp0).abs().max().item() > 1e-9 or torch.isnan(lp0).any() or (torch.exp(lp0) - exp0).abs().max().item() > 1e-9:
        out.append(_f("Poisson/zero_rate_point_mass", dict(rate=0.0), exp0.tolist(), [pmf0.tolist(), lp0.tolist()]))
    for mu, sg in itertools.product((-1.0, 0.0, 2.0), (0.3, 1.0, 2.0)):
        for name, D, xs in (("Normal", Normal, torch.linspace(mu - 12 * sg, mu + 12 * sg, 20001, dtype=torch.float64)),
                            ("LogNormal", LogNormal, torch.exp(torch.linspace(mu - 12 * sg, mu + 12 * sg, 20001, dtype=torch.float64)))):
            cases += 4
            m_, s_ = torch.tensor(mu, dtype=torch.float64), torch.tensor(sg, dtype=torch.float64)
            pdf = D.pdf(xs, m_, s_).double()
            integ = torch.trapezoid(pdf, xs).item()
            if abs(integ - 1) > 1e-4:
                out.append(_f(f"{name}/pdf_integrates_to_one", dict(loc=mu, scale=sg), 1.0, integ))
            lp = D.logpdf(xs, m_, s_).double()
            if (torch.exp(lp) - pdf).abs().max().item() > 1e-6:
                out.append(_f(f"{name}/exp_logpdf", dict(loc=mu, scale=sg), "pdf", "differs"))
            cum = torch.cumulative_trapezoid(pdf, xs)
            cdf = D.cdf(xs[1:], m_, s_).double()
            if (cum - cdf).abs().max().item() > 1e-4:
                out.append(_f(f"{name}/cdf_is_integral_of_pdf", dict(loc=mu, scale=sg), "integral", (cum - cdf).abs().max().item()))
            mean = torch.trapezoid(pdf * xs, xs).item()
            smean = (D.mean(m_) if name == "Normal" else D.mean(m_, s_)).item()
            if name == "Normal" or sg <= 1.0:
                if abs(mean - smean) > 1e-3 * max(1, abs(smean)):
                    out.append(_f(f"{name}/mean_moment", dict(loc=mu, scale=sg), smean, mean))
            try:
                lc = D.logcdf(xs[10000:10010], m_, s_).double()
                if (lc - torch.log(D.cdf(xs[10000:10010], m_, s_).double())).abs().max().item() > 1e-5:
                    out.append(_f(f"{name}/logcdf", dict(loc=mu, scale=sg), "log cdf", "differs"))
            except RecursionError:
                out.append(_f(f"{name}/logcdf", dict(loc=mu, scale=sg), "log cdf", "RecursionError"))
    for m, v in itertools.product((0.5, 1.0, 3.0), (0.2, 1.0, 4.0)):
        for name, D in (("Normal", Normal), ("LogNormal", LogNormal)):
            cases += 1
            loc, sc = D.params_mv(torch.tensor(m, dtype=torch.float64), torch.tensor(v, dtype=torch.float64))
            mm = (D.mean(loc) if name == "Normal" else D.mean(loc, sc)).item()
            vv = (D.variance(sc) if name == "Normal" else D.variance(loc, sc)).item()
            if abs(mm - m) > 1e-5 or abs(vv - v) > 1e-5:
                out.append(_f(f"{name}/params_mv_roundtrip", dict(mean=m, variance=v), [m, v], [mm, vv]))
    return out, cases


def isi_checks(tier):
    out, cases = [], 0
    T = 5 if tier == "quick" else 6
    trains = list(itertools.product((0, 1), repeat=T))
    rnd = random.Random(0)
    combos = [rnd.sample(trains, 3) for _ in range(60 if tier == "quick" else 400)] + [[(0,) * T] * 3, [(1,) * T] * 3]
    for combo in combos:
        for time_first in (True, False):
            for dt in (1.0, 0.5):
                cases += 1
                raster = torch.tensor(combo, dtype=torch.bool)  # (3, T)
                inp = raster.t() if time_first else raster
                try:
                    res = inferno.isi(inp, dt, time_first=time_first)
                except Exception as e:
                    out.append(_f("isi/exception", dict(raster=[list(c) for c in combo], time_first=time_first), "intervals", f"{type(e).__name__}: {e}"))
                    continue
                res = res.t() if time_first else res
                for i, tr in enumerate(combo):
                    times = [k * dt for k, b in enumerate(tr) if b]
                    exp = [b - a for a, b in zip(times, times[1:])]
                    got = [x for x in res[i].tolist() if not math.isnan(x)] if res.numel() else []
                    if len(got) != len(exp) or any(abs(a - b) > 1e-6 for a, b in zip(got, exp)):
                        out.append(_f("isi/reintegrates", dict(raster=[list(c) for c in combo], train=i, time_first=time_first, dt=dt), exp, got))
                        break
    return out, cases


def vp_ref(a, b, q):
    n, m = len(a), len(b)
    if q == math.inf:
        return float(n + m)  # documented limit
    g = [[0.0] * (m + 1) for _ in range(n + 1)]
    for i in range(n + 1):
        g[i][0] = float(i)
    for j in range(m + 1):
        g[0][j] = float(j)
    for i in range(1, n + 1):
        for j in range(1, m + 1):
            g[i][j] = min(g[i - 1][j] + 1, g[i][j - 1] + 1, g[i - 1][j - 1] + q * abs(a[i - 1] - b[j - 1]))
    return g[n][m]


def vp_checks(tier):
    out, cases = [], 0
    grid = [0.0, 1.0, 2.0, 3.5]
    vecs = [()] + [tuple(c) for r in (1, 2, 3) for c in itertools.combinations(grid, r)]
    costs = [0.0, 0.5, 2.0, math.inf]

    def d(a, b, q, tensor_cost):
        qa = torch.tensor([q]) if tensor_cost else q
        return inferno.victor_purpura_pair_dist(torch.tensor(a, dtype=torch.float32), torch.tensor(b, dtype=torch.float32), qa)[0].item()

    for a, b in itertools.product(vecs, repeat=2):
        for q in costs:
            for tc in (False, True):
                cases += 1
                try:
                    v = d(a, b, q, tc)
                except Exception as e:
                    out.append(_f("vp/exception", dict(a=a, b=b, cost=q, tensor_cost=tc), "distance", f"{type(e).__name__}: {e}"))
                    continue
                lo, hi = abs(len(a) - len(b)), len(a) + len(b)
                if not (lo - 1e-5 <= v <= hi + 1e-5):
                    out.append(_f("vp/cost_limits", dict(a=a, b=b, cost=q, tensor_cost=tc), [lo, hi], v))
                if q != math.inf and abs(v - vp_ref(a, b, q)) > 1e-4:
                    out.append(_f("vp/reference", dict(a=a, b=b, cost=q, tensor_cost=tc), vp_ref(a, b, q), v))
                if abs(v - d(b, a, q, tc)) > 1e-5:
                    out.append(_f("vp/symmetry", dict(a=a, b=b, cost=q, tensor_cost=tc), v, d(b, a, q, tc)))
                if a == b and q != math.inf and abs(v) > 1e-6:
                    out.append(_f("vp/identity", dict(a=a, cost=q, tensor_cost=tc), 0.0, v))
    # spike times as INTEGER step indices (torch.nonzero of a raster) with a fractional cost
    ivecs = [()] + [tuple(c) for r in (1, 2) for c in itertools.combinations((1, 2, 4, 7), r)]
    for a, b in itertools.product(ivecs, repeat=2):
        for q in (0.3, 0.5):
            for tc in (False, True):
                cases += 1
                try:
                    v = inferno.victor_purpura_pair_dist(torch.tensor(a, dtype=torch.int64), torch.tensor(b, dtype=torch.int64), torch.tensor([q]) if tc else q)[0].item()
                except Exception as e:
                    out.append(_f("vp/integer_times_exception", dict(a=a, b=b, cost=q, tensor_cost=tc), "distance", f"{type(e).__name__}: {e}"))
                    continue
                if abs(v - vp_ref(a, b, q)) > 1e-4 and not any(x["what"].endswith("vp/integer_times_reference") for x in out):
                    out.append(_f("vp/integer_times_reference", dict(a=a, b=b, cost=q, tensor_cost=tc), vp_ref(a, b, q), v))
    rnd = random.Random(0)
    for _ in range(150 if tier == "quick" else 1500):
        a, b, c_ = (rnd.choice(vecs) for _ in range(3))
        q = rnd.choice([0.5, 2.0])
        cases += 1
        if d(a, c_, q, False) > d(a, b, q, False) + d(b, c_, q, False) + 1e-4:
            out.append(_f("vp/triangle", dict(a=a, b=b, c=c_, cost=q), "<=", "violated"))
    return out, cases


def sweep(tier="quick", seed=0, unsupported=()):
    failures = []
    f1, c1 = dist_checks(tier)
    f2, c2 = isi_checks(tier)
    f3, c3 = vp_checks(tier)
    from . import c02 as _c02

    f4, c4 = _c02.pair_cases()
    f4 = [dict(f, what=f["what"].replace("C02/", "C20/")) for f in f4]
    for f in f1 + f2 + f3 + f4:
        if not any(x["what"] == f["what"] for x in failures):
            failures.append(f)
    return {"standins": [
        {"function": "shipped extrapolation/interpolation pairs (linear ones also with adjust): round trip and documented endpoints", "domain": "see native/c02.py pair_cases", "cases": c4, "proved": False, "label": "bounded"},
        {"function": "Poisson/Normal/LogNormal: sum/integral of density = 1 and = cdf, moments, logcdf, params_mv round trip (quadrature)", "domain": "rate in {0.1,1,5,30}; loc in {-1,0,2} x scale in {0.3,1,2}; 20001-point trapezoid", "cases": c1, "proved": False, "label": "bounded"},
        {"function": "isi re-integrates to spike times", "domain": "rasters of 3 trains x T<=6 steps, both layouts, dt in {1,0.5}, incl. empty and full trains", "cases": c2, "proved": False, "label": "bounded"},
        {"function": "victor_purpura_pair_dist: limits, reference DP, symmetry, identity, triangle (sampled)", "domain": "spike-time vectors of length<=3 on a 4-point grid, costs {0,0.5,2,inf}, float and tensor cost", "cases": c3, "proved": False, "label": "bounded"}],
        "failures": failures}


def replay(contract, label, model, note=""):
    if contract.startswith("pair["):
        from . import c02

        return c02.replay_pair(contract, model)
    r = sweep("quick")
    if r["failures"]:
        return {"reproduced": True, "failure": r["failures"][0], "concrete": r["failures"][0]["input"]}
    return {"reproduced": False, "search": {"points_tried": sum(s["cases"] for s in r["standins"])}}


def replay_native(rp):
    r = sweep("quick")
    hit = [f for f in r["failures"] if f["what"] == rp.get("what")]
    return {"reproduced": bool(hit), "failure": hit[0] if hit else None}
