"""Shared builders for the bounded connection oracles (C05 / C06 / C11)."""
from __future__ import annotations

import math

from .common import torch
import torch.nn.functional as F
from inferno.neural import Conv2D, DeltaCurrent, DeltaPlusCurrent, DoubleExponentialCurrent, LinearDense, LinearDirect, LinearLateral, SingleExponentialCurrent

SYN = ("delta", "deltaplus", "single", "double")
CONN = ("dense", "direct", "lateral", "conv")


def synctor(kind, **kw):
    if kind == "delta":
        return DeltaCurrent.partialconstructor(1.5, **kw)
    if kind == "deltaplus":
        return DeltaPlusCurrent.partialconstructor(1.5, **kw)
    if kind == "single":
        return SingleExponentialCurrent.partialconstructor(1.5, 4.0, **kw)
    return DoubleExponentialCurrent.partialconstructor(1.5, 6.0, 2.0, **kw)


def mkconn(ckind, skind, dt, B, bias, delay, seed, geom=None, **synkw):
    torch.manual_seed(seed)
    s = synctor(skind, **synkw)
    kw = dict(synapse=s, bias=bias, delay=delay, batch_size=B)
    if ckind == "dense":
        return LinearDense((2, 3), (2, 2), dt, **kw)
    if ckind == "direct":
        return LinearDirect((2, 3), dt, **kw)
    if ckind == "lateral":
        return LinearLateral((2, 3), dt, **kw)
    g = geom or dict(H=5, W=6, C=2, Fn=3, k=(2, 3), s=(1, 2), p=(1, 0), d=(2, 1))
    return Conv2D(g["H"], g["W"], g["C"], g["Fn"], dt, g["k"], stride=g["s"], padding=g["p"], dilation=g["d"], **kw)


def inshape(conn):
    return tuple(conn.inshape)


def drive(conn, B, steps, seed, rate=0.4, silent_samples=()):
    g = torch.Generator().manual_seed(seed)
    xs = []
    for _ in range(steps):
        x = (torch.rand(B, *inshape(conn), generator=g) < rate).float()
        for b in silent_samples:
            x[b] = 0
        xs.append(x)
    return xs


def reference_map(ckind, conn, cur, bias=True):
    """documented linear map of a synaptic-layout current (B, n_in) [conv: (B, C*kh*kw, L)] -> output"""
    w = conn.weight.detach()
    b = conn.bias.detach() if conn.bias is not None else None
    B = cur.shape[0]
    if ckind == "dense":
        out = cur @ w.t()
        out = out + b if b is not None else out
    elif ckind == "direct":
        out = cur * w
        out = out + b if b is not None else out
    elif ckind == "lateral":
        m = 1.0 - torch.eye(w.shape[0])
        out = cur @ (w * m).t()
        out = out + b if b is not None else out
    else:
        k = w.reshape(w.shape[0], -1)
        out = torch.einsum("fn,bnl->bfl", k, cur)
        out = out.reshape(B, w.shape[0], conn.outheight, conn.outwidth)
        if b is not None:
            out = out + b.view(1, -1, 1, 1)
        return out
    return out.reshape(B, *conn.outshape)


def delayed_reference(ckind, conn, hist, t, dsteps):
    """sum over synapses of the current taken d steps earlier (zero before the start)"""
    w = conn.weight.detach()
    b = conn.bias.detach() if conn.bias is not None else None
    B = hist[0].shape[0]
    zero = torch.zeros_like(hist[0])
    get = lambda k: hist[t - k] if t - k >= 0 else zero  # noqa: E731
    kmax = int(dsteps.max().item())
    if ckind == "direct":
        out = torch.zeros(B, w.numel())
        for k in range(kmax + 1):
            out = out + get(k) * w * (dsteps == k)
    elif ckind in ("dense", "lateral"):
        wm = w * (1.0 - torch.eye(w.shape[0])) if ckind == "lateral" else w
        out = torch.zeros(B, w.shape[0])
        for k in range(kmax + 1):
            out = out + get(k) @ (wm * (dsteps == k)).t()
    else:
        kflat = w.reshape(w.shape[0], -1)
        dflat = dsteps.reshape(w.shape[0], -1)
        out = torch.zeros(B, w.shape[0], hist[0].shape[-1])
        for k in range(kmax + 1):
            out = out + torch.einsum("fn,bnl->bfl", kflat * (dflat == k), get(k))
        out = out.reshape(B, w.shape[0], conn.outheight, conn.outwidth)
        if b is not None:
            out = out + b.view(1, -1, 1, 1)
        return out
    if b is not None:
        out = out + b
    return out.reshape(B, *conn.outshape)
