"""Shared builders for the bounded connection oracles (C05 / C06 / C11)."""
from __future__ import annotations

import math

from .common import torch
import torch.nn.functional as F
from inferno.neural import Conv2D, DeltaCurrent, DeltaPlusCurrent, DoubleExponentialCurrent, LinearDense, LinearDirect, LinearLateral, SingleExponentialCurrent

SYN = ("delta", "deltaplus", "single", "double")
CONN = ("dense", "direct", "lateral", "conv")


def synctor(kind, **kw):
    if kind == "delta":
        return DeltaCurrent.partialconstructor(1.5, **kw)
    if kind == "deltaplus":
        return DeltaPlusCurrent.partialconstructor(1.5, **kw)
    if kind == "single":
        return SingleExponentialCurrent.partialconstructor(1.5, 4.0, **kw)
    return DoubleExponentialCurrent.partialconstructor(1.5, 6.0, 2.0, **kw)


def mkconn(ckind, skind, dt, B, bias, delay, seed, geom=None, **synkw):
    torch.manual_seed(seed)
    s = synctor(skind, **synkw)
    kw = dict(synapse=s, bias=bias, delay=delay, batch_size=B)
    if ckind == "dense":
        return LinearDense((2, 3), (2, 2), dt, **kw)
    if ckind == "direct":
        return LinearDirect((2, 3), dt, **kw)
    if ckind == "lateral":
        return LinearLateral((2, 3), dt, **kw)
    g = geom or dict(H=5, W=6, C=2, Fn=3, k=(2, 3), s=(1, 2), p=(1, 0), d=(2, 1))
    return Conv2D(g["H"], g["W"], g["C"], g["Fn"], dt, g["k"], stride=g["s"], padding=g["p"], dilation=g["d"], **kw)


def inshape(conn):
    return tuple(conn.inshape)


def drive(conn, B, steps, seed, rate=0.4, silent_samples=()):
    g = torch.Generator().manual_seed(seed)
    xs = []
    for _ in range(steps):
        x = (torch.rand(B, *inshape(conn), generator=g) < rate).float()
        for b in silent_samples:
            x[b] = 0
        xs.append(x)
    return xs


def reference_map(ckind, conn, cur, bias=True):
    """documented linear map of a synaptic-layout current (B, n_in) [conv: (B, C*kh*kw, L)] -> output"""
    w = conn.weight.detach()
    b = conn.bias.detach() if conn.bias is not None else None
    B = cur.shape[0]
    if ckind == "dense":
        out = cur @ w.t()
        out = out + b if b is not None else out
    elif ckind == "direct":
        out = cur * w
        out = out + b if b is not None else out
    elif ckind == "lateral":
        m = 1.0 - torch.eye(w.shape[0])
        out = cur @ (w * m).t()
        out = out + b if b is not None else out
    else:
        k = w.reshape(w.shape[0], -1)
        out = torch.einsum("fn,bnl->bfl", k, cur)
        out = out.reshape(B, w.shape[0], conn.outheight, conn.outwidth)
        if b is not None:
            out = out + b.view(1, -1, 1, 1)
        return out
    return out.reshape(B, *conn.outshape)


def delayed_reference(ckind, conn, hist, t, dsteps):
    """sum over synapses of the current taken d steps earlier (zero before the start)"""
    w = conn.weight.detach()
    b = conn.bias.detach() if conn.bias is not None else None
    B = hist[0].shape[0]
    zero = torch.zeros_like(hist[0])
    get = lambda k: hist[t - k] if t - k >= 0 else zero  # noqa: E731
    kmax = int(dsteps.max().item())
    if ckind == "direct":
        out = torch.zeros(B, w.numel())
        for k in range(kmax + 1):
            out = out + get(k) * w * (dsteps == k)
    elif ckind in ("dense", "lateral"):
        wm = w * (1.0 - torch.eye(w.shape[0])) if ckind == "lateral" else w
        out = torch.zeros(B, w.shape[0])
        for k in range(kmax + 1):
            out = out + get(k) @ (wm * (dsteps == k)).t()
    else:
        kflat = w.reshape(w.shape[0], -1)
        dflat = dsteps.reshape(w.shape[0], -1)
        out = torch.zeros(B, w.shape[0], hist[0].shape[-1])
        for k in range(kmax + 1):
            out = out + torch.einsum("fn,bnl->bfl", kflat * (dflat == k), get(k))
        out = out.reshape(B, w.shape[0], conn.outheight, conn.outwidth)
        if b is not None:
            out = out + b.view(1, -1, 1, 1)
        return out
    if b is not None:
        out = out + b
    return out.reshape(B, *conn.outshape)


def replay_layouts(model):
    """replays a counter-model of contract Conv2D.layouts on the REAL Conv2D: channel / kernel sizes from the model, every
    tap and every output position compared with torch's unfold order (row (c*KH + a)*KW + b, column oy*OW + ox)"""
    import einops as ein

    def g(k, d):
        try:
            return max(1, min(int(model.get(k, d)), 4))
        except Exception:
            return d

    C, Fn, KH, KW = g("C", 2), g("F", 2), g("KH", 2), g("KW", 3)
    H, W, dt = 9, 8, 1.0
    conn = Conv2D(H, W, C, Fn, dt, (KH, KW), synapse=synctor("delta"), delay=4.0, bias=True, batch_size=2)
    N, L = C * KH * KW, conn.outheight * conn.outwidth
    rows = torch.arange(N, dtype=torch.float32)
    cols = torch.arange(L, dtype=torch.float32)
    want_rows = ein.rearrange(rows, "(c a b) -> c a b", c=C, a=KH, b=KW)  # definition of unfold's row order
    bad = []
    # receptive view of a synaptic-layout tensor whose value is rows*1000 + column
    data = (rows.view(1, N, 1) * 1000 + cols.view(1, 1, L)).expand(2, N, L).contiguous()
    rec = conn.presyn_receptive(data)
    exp = (want_rows.view(1, 1, C, KH, KW, 1) * 1000 + cols.view(1, 1, 1, 1, 1, L)).expand(2, 1, C, KH, KW, L)
    if rec.shape != exp.shape or not torch.equal(rec, exp):
        bad.append("presyn_receptive: tap (c, a, b) is not row (c*KH + a)*KW + b of the unfolded input")
    # delay selector: delay[f, c, a, b] = its own row index
    with torch.no_grad():
        conn.delay.copy_((want_rows.view(1, C, KH, KW) / max(N, 1) * 3.0).expand(Fn, C, KH, KW))
    sel = conn.selector
    if not torch.allclose(sel[0, :, 0, 0], rows / max(N, 1) * 3.0, atol=1e-6):
        bad.append("selector: the delay of tap (c, a, b) is not at row (c*KH + a)*KW + b")
    # receptive view of the output
    out = cols.view(1, 1, conn.outheight, conn.outwidth).expand(2, Fn, conn.outheight, conn.outwidth).contiguous()
    post = conn.postsyn_receptive(out)
    if not torch.equal(post.reshape(2, Fn, L)[0, 0], cols):
        bad.append("postsyn_receptive: output (oy, ox) is not column oy*OW + ox")
    # forward against conv2d, undelayed and delayed
    for delayed in (False, True):
        cn = Conv2D(H, W, C, Fn, dt, (KH, KW), synapse=synctor("delta"), delay=(2.0 if delayed else None), bias=False, batch_size=1)
        torch.manual_seed(0)
        with torch.no_grad():
            cn.weight.copy_(torch.randn_like(cn.weight))
            if delayed:
                cn.delay.fill_(0.0)
        x = (torch.rand(1, C, H, W) < 0.5).float()
        y = cn(x)
        cur = cn.synapse.current  # 1 N L, the unfolded synaptic current; overlapping entries are copies of one input value
        img = F.fold(cur, (H, W), (KH, KW)) / F.fold(torch.ones_like(cur), (H, W), (KH, KW))
        ref = F.conv2d(img, cn.weight)
        if y.shape != ref.shape or not torch.allclose(y, ref, atol=1e-4):
            bad.append(f"forward ({'delayed' if delayed else 'undelayed'}): differs from conv2d of the synaptic current")
    concrete = {"C": C, "F": Fn, "KH": KH, "KW": KW, "H": H, "W": W}
    if bad:
        return {"reproduced": True, "failure": {"what": "Conv2D layout", "detail": bad}, "concrete": concrete}
    return {"reproduced": False, "concrete": concrete}
