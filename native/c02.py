"""C02 native oracle: select/insert vs the statement's spec, scalar vs tensor agreement, float grid (bounded stand-in)."""
from __future__ import annotations

import itertools
import math
from fractions import Fraction as Fr

from .common import make_record, torch, view
from inferno import functional as F

PAIRS = [("extrap_previous", "interp_previous"), ("extrap_next", "interp_next"), ("extrap_nearest", "interp_nearest"),
         ("extrap_neighbors", "interp_linear"), ("extrap_linear_forward", "interp_linear"), ("extrap_linear_backward", "interp_linear"),
         ("extrap_expdecay", "interp_expdecay"), ("extrap_expratedecay", "interp_expratedecay")]
KW = {"interp_expdecay": dict(time_constant=3.0), "extrap_expdecay": dict(time_constant=3.0), "interp_expratedecay": dict(rate_constant=0.4), "extrap_expratedecay": dict(rate_constant=0.4)}


def spec_select(m, N, dt, t, tol, off, interp, kw):
    """statement: exact sample within tolerance of a multiple of dt, else interp(older, newer, elapsed since older)"""
    s = Fr(t) / Fr(dt)
    r = round(s)
    if abs(Fr(dt) * r - Fr(t)) <= Fr(tol):
        return m[(off + r) % N]
    c, f = math.ceil(s), math.floor(s)
    older, newer = m[(off + c) % N], m[(off + f) % N]
    el = float(Fr(dt) * c - Fr(t))
    # the elapsed time is a real number whatever the record stores (integer / boolean records too)
    return interp(older, newer, torch.full(older.shape, el, dtype=older.dtype if older.is_floating_point() else torch.float64), dt, **kw)


def in_range(N, dt, t, tol):
    return -Fr(tol) <= Fr(t) <= Fr(dt) * (N - 1) + Fr(tol)


def check_select(N, ptr, dt, t, tol, off, iname, dtype=torch.float64):
    owner, rec, data = make_record(N, ptr, (2,), dtype, dt=dt)
    m = view(rec)
    interp = getattr(F, iname)
    kw = KW.get(iname, {})
    inp = dict(N=N, ptr=ptr, dt=dt, t=t, tol=tol, off=off, interp=iname, dtype=str(dtype))
    ok = in_range(N, dt, t, tol)
    res = {}
    for mode in ("scalar", "tensor"):
        tt = t if mode == "scalar" else torch.full((2,), t, dtype=dtype if dtype.is_floating_point else torch.float64)
        try:
            res[mode] = rec.select(tt, interp, tolerance=tol, offset=off, interp_kwargs=kw)
        except ValueError:
            res[mode] = "rejected"
        except Exception as e:
            return {"what": f"C02/select/{mode}/exception", "input": inp, "expected": "value or ValueError", "actual": f"{type(e).__name__}: {e}"}
    for mode, v in res.items():
        if (v == "rejected") != (not ok) if isinstance(v, str) else (not ok):
            return {"what": f"C02/select/{mode}/range_rejection", "input": inp, "expected": "rejected" if not ok else "accepted", "actual": "rejected" if isinstance(v, str) else "accepted"}
    if not ok:
        return None
    exp = spec_select(m, N, dt, t, tol, off, interp, kw)
    for mode, v in res.items():
        if not torch.allclose(v.to(torch.float64), exp.to(torch.float64), rtol=1e-9, atol=1e-9):
            return {"what": f"C02/select/{mode}/value", "input": inp, "expected": exp.tolist(), "actual": v.tolist()}
    return None


def check_insert(N, ptr, dt, t, tol, off, ename, iname, inplace, mode, dtype=torch.float64):
    owner, rec, data = make_record(N, ptr, (2,), dtype, dt=dt)
    m = view(rec)
    extrap, interp = getattr(F, ename), getattr(F, iname)
    kw = KW.get(ename, {})
    inp = dict(N=N, ptr=ptr, dt=dt, t=t, tol=tol, off=off, extrap=ename, inplace=inplace, mode=mode)
    obs = torch.tensor([7.25, -3.5], dtype=dtype)
    tt = t if mode == "scalar" else torch.full((2,), t, dtype=dtype)
    ok = in_range(N, dt, t, tol)
    try:
        rec.insert(obs, tt, extrap, tolerance=tol, offset=off, inplace=inplace, extrap_kwargs=kw)
        rejected = False
    except ValueError:
        rejected = True
    except Exception as e:
        return {"what": f"C02/insert/{mode}/exception", "input": inp, "expected": "normal/ValueError", "actual": f"{type(e).__name__}: {e}"}
    if rejected != (not ok):
        return {"what": f"C02/insert/{mode}/range_rejection", "input": inp, "expected": "rejected" if not ok else "accepted", "actual": "rejected" if rejected else "accepted"}
    if not ok:
        return None
    s = Fr(t) / Fr(dt)
    r = round(s)
    exp = list(m)
    if abs(Fr(dt) * r - Fr(t)) <= Fr(tol):
        exp[(off + r) % N] = obs
    else:
        c, f = math.ceil(s), math.floor(s)
        el = float(Fr(dt) * c - Fr(t))
        e0, e1 = extrap(obs, torch.full_like(obs, el), m[(off + c) % N], m[(off + f) % N], dt, **kw)
        exp[(off + f) % N] = e1
        exp[(off + c) % N] = e0
    act = view(rec)
    for k in range(N):
        if not torch.allclose(act[k], exp[k], rtol=1e-9, atol=1e-9):
            return {"what": f"C02/insert/{mode}/slot", "input": dict(inp, k=k), "expected": exp[k].tolist(), "actual": act[k].tolist()}
    # round trip with the matching pair (same offset on both calls)
    if N >= 2:
        ikw = KW.get(iname, {})
        el_ok = True
        if abs(Fr(dt) * r - Fr(t)) > Fr(tol):
            el = Fr(dt) * math.ceil(s) - Fr(t)
            if ename == "extrap_linear_forward" and el == 0:
                el_ok = False
            if ename == "extrap_linear_backward" and el == Fr(dt):
                el_ok = False
        if el_ok:
            back = rec.select(tt, interp, tolerance=tol, offset=off, interp_kwargs=ikw)
            if not torch.allclose(back, obs, rtol=1e-7, atol=1e-7):
                return {"what": f"C02/roundtrip/{mode}", "input": dict(inp, interp=iname), "expected": obs.tolist(), "actual": back.tolist()}
    return None


ADJUSTS = {"none": None, "halve": (lambda v: v * 0.5), "shift": (lambda v: v + 1.0), "clamp": (lambda v: v.clamp(0.25, 0.75))}


def pair_cases(points=None):
    """shipped extrapolation / interpolation pairs on real float64 tensors, the linear ones also with an `adjust` callable:
    interp(extrap(sample)) at the sample time returns the sample, and the linear endpoints are the documented ones"""
    fails, n = [], 0
    pts = points or [(x, p, q, ts, dt) for x in (0.3, -1.25) for p in (0.5, 2.0) for q in (-0.75, 1.5) for dt in (1.0, 0.5) for ts in (0.25 * dt, 0.5 * dt, 0.875 * dt)]
    for ename, iname in PAIRS:
        adjs = ADJUSTS if "linear" in ename else {"none": None}
        for an, adj in adjs.items():
            for x, p, q, ts, dt in pts:
                if ename == "extrap_linear_forward" and ts <= 0 or ename == "extrap_linear_backward" and ts >= dt:
                    continue
                n += 1
                X, P_, Q, TS = (torch.tensor([v], dtype=torch.float64) for v in (x, p, q, ts))
                kw = dict(KW.get(ename, {}))
                if adj is not None:
                    kw["adjust"] = adj
                try:
                    a, b = getattr(F, ename)(X, TS, P_, Q, dt, **kw)
                    back = getattr(F, iname)(a, b, TS, dt, **KW.get(iname, {}))
                except Exception as e:  # noqa: BLE001
                    fails.append({"what": f"C02/pair/{ename}/{an}/exception", "input": dict(x=x, prev=p, next=q, ts=ts, dt=dt, adjust=an), "expected": "value", "actual": f"{type(e).__name__}: {e}"})
                    break
                inp = dict(extrap=ename, interp=iname, x=x, prev=p, next=q, ts=ts, dt=dt, adjust=an)
                if abs(back.item() - x) > 1e-9:
                    fails.append({"what": f"C02/pair/{ename}/roundtrip", "input": inp, "expected": x, "actual": back.item()})
                    break
                if "linear" in ename:
                    f = adj or (lambda v: v)
                    if ename.endswith("forward"):
                        e0 = f(P_).item()
                        e1 = e0 + (x - e0) / ts * dt
                    else:
                        e1 = f(Q).item()
                        e0 = e1 - (e1 - x) / (dt - ts) * dt
                    if abs(a.item() - e0) > 1e-9 or abs(b.item() - e1) > 1e-9:
                        fails.append({"what": f"C02/pair/{ename}/documented_endpoints", "input": inp, "expected": [e0, e1], "actual": [a.item(), b.item()]})
                        break
    uniq = []
    for f_ in fails:
        if not any(u["what"] == f_["what"] for u in uniq):
            uniq.append(f_)
    return uniq, n


def replay_pair(contract, model):
    from fractions import Fraction

    def g(k, d):
        try:
            return float(Fraction(str(model.get(k, d))))
        except Exception:
            return d

    dt = g("dt", 1.0) or 1.0
    pts = [(g("x", 0.3), g("p", 0.5), g("n", -0.75), min(max(g("ts", 0.5 * dt), 0.0), dt), dt)]
    fs, _ = pair_cases(pts)
    if not fs:
        fs, _ = pair_cases()
    want = contract.split("[")[1].split(",")[0] if "[" in contract else ""
    hit = [f for f in fs if want in f["what"]] or fs
    if hit:
        return {"reproduced": True, "failure": hit[0], "concrete": hit[0]["input"]}
    return {"reproduced": False, "search": {"points_tried": _}}


def times_for(N, dt, tol):
    ts = set()
    for k in range(0, N):
        for d in (0.0, tol, -tol, 2 * tol, -2 * tol, tol / 2, dt / 2, dt / 4, 0.75 * dt):
            ts.add(k * dt + d)
    hi = dt * (N - 1)
    ts.update({-tol, -2 * tol, hi + tol, hi + 2 * tol, -dt, hi + dt, dt * N, -0.375 * dt})
    return sorted(ts)


def sweep(tier="quick", seed=0, unsupported=()):
    failures, cases = [], 0
    dts = [1.0, 0.5, 0.75] if tier == "quick" else [1.0, 0.5, 0.75, 1.25, 0.25]
    Ns = [1, 2, 3] if tier == "quick" else [1, 2, 3, 4, 5]
    tols = [0.0, 2.0 ** -10, 0.25]  # dyadic: the float arithmetic of the oracle and of the code is then exact at the boundaries

    def add(f):
        if f is not None and len(failures) < 8 and not any(x["what"] == f["what"] for x in failures):
            failures.append(f)

    for dt, N, tol in itertools.product(dts, Ns, tols):
        for ptr in range(N):
            for off in (0, 1, 2 * N):
                for t in times_for(N, dt, tol * dt):
                    for iname in ("interp_previous", "interp_nearest", "interp_linear", "interp_expdecay"):
                        cases += 1
                        add(check_select(N, ptr, dt, t, tol * dt, off, iname))
                    for ename, iname in (PAIRS if off == 0 else PAIRS[:2]):
                        for inplace in (False, True):
                            for mode in ("scalar", "tensor"):
                                cases += 1
                                add(check_insert(N, ptr, dt, t, tol * dt, off, ename, iname, inplace, mode))
    # float32 / non-representable step times: the declared unverified clause (A1), exercised concretely
    fl = 0
    for dt in (0.1, 1.3, 0.7):
        for N in (3, 6):
            for k in range(N):
                for iname in ("interp_previous", "interp_linear"):
                    fl += 1
                    add(check_select(N, N - 1, dt, k * dt, 1e-6, 1, iname, dtype=torch.float32))
    # integer and boolean records (spike records are boolean): selection must not depend on the storage data type
    nf = 0
    for dtype in (torch.int64, torch.bool):
        for N in (2, 3):
            for t in (0.1, 0.5, 0.9, 1.3, 1.0):
                for iname in ("interp_nearest", "interp_previous", "interp_next"):
                    nf += 1
                    add(check_select(N, N - 1, 1.0, t, 0.0, 1, iname, dtype=dtype))
    pf, pn = pair_cases()
    for f_ in pf:
        add(f_)
    return {"standins": [
        {"function": "select on int64 / bool records (scalar and tensor time agree with the float reference)", "domain": "N in {2,3}, 5 times, 3 interpolations", "cases": nf, "proved": False, "label": "bounded"},
        {"function": "shipped extrapolation/interpolation pairs (linear ones also with adjust = halve / shift / clamp): round trip and documented endpoints", "domain": "2 samples x 2 x 2 bracket values x dt in {1, 0.5} x ts/dt in {1/4, 1/2, 7/8}", "cases": pn, "proved": False, "label": "bounded"},
        {"function": "RecordTensor.select/insert scalar AND tensor time vs rational-arithmetic spec (real torch)", "domain": f"dt in {dts}, N in {Ns}, tol/dt in {tols}, all ptr, offsets {{0,1,2N}}, times on/off grid, +-tol, +-2tol, both range limits; 8 extrap/interp pairs; round trip", "cases": cases, "proved": False, "label": "bounded"},
        {"function": "select on float32 storage with non-representable dt (IEEE rounding of time/dt: declared unverified clause)", "domain": "dt in {0.1,1.3,0.7}, N in {3,6}, t = k*dt", "cases": fl, "proved": False, "label": "bounded"}],
        "failures": failures}


def replay(contract, label, model, note=""):
    g = lambda k, d: model.get(k, d)  # noqa: E731
    N = max(1, min(int(g("N", 3)), 32))
    ptr = int(g("ptr", 0)) % N
    dt = float(g("dt", 1.0)) or 1.0
    s = float(g("s", 0.0))
    tau = float(g("tau", 0.0))
    off = int(g("off", 1))
    t, tol = dt * s, dt * tau
    out = None
    if "select" in contract:
        dts = [torch.int64, torch.bool] if ("int record" in contract or "bool record" in contract) else [torch.float64]
        for dtp in dts:
            for iname in (("interp_nearest", "interp_previous", "interp_next") if dtp != torch.float64 else ("interp_linear", "interp_previous", "interp_next", "interp_nearest")):
                for tt_ in ((t,) if dtp == torch.float64 else (t, 0.1, 0.9)):
                    out = check_select(N, ptr, dt, tt_, tol, off, iname, dtype=dtp)
                    if out:
                        break
                if out:
                    break
            if out:
                break
    if out is None and ("insert" in contract or "roundtrip" in contract):
        for ename, iname in PAIRS:
            for inplace in (bool(g("inplace", False)), not bool(g("inplace", False))):
                for mode in (("tensor", "scalar") if "tensor" in contract else ("scalar", "tensor")):
                    out = check_insert(N, ptr, dt, t, tol, off, ename, iname, inplace, mode)
                    if out:
                        break
                if out:
                    break
            if out:
                break
    if out is None and contract.startswith("pair["):
        return replay_pair(contract, model)
    if out is not None:
        return {"reproduced": True, "failure": out, "concrete": dict(N=N, ptr=ptr, dt=dt, t=t, tol=tol, off=off)}
    tried = 0
    for N2 in (1, 2, 3, 4):
        for p2 in range(N2):
            for tt in times_for(N2, dt, tol):
                tried += 1
                o = check_select(N2, p2, dt, tt, tol, off, "interp_linear") if "select" in contract else (check_insert(N2, p2, dt, tt, tol, off, "extrap_neighbors", "interp_linear", False, "scalar") or check_insert(N2, p2, dt, tt, tol, off, "extrap_neighbors", "interp_linear", False, "tensor"))
                if o:
                    return {"reproduced": True, "failure": o, "concrete": o["input"], "search": {"points_tried": tried}}
    return {"reproduced": False, "search": {"points_tried": tried}}


def replay_native(rp):
    inp = dict(rp["input"])
    what = rp.get("what", "")
    if "/select/" in what:
        f = check_select(inp["N"], inp["ptr"], inp["dt"], inp["t"], inp["tol"], inp["off"], inp["interp"], dtype=getattr(torch, str(inp.get("dtype", "torch.float64")).split(".")[-1]))
    else:
        f = check_insert(inp["N"], inp["ptr"], inp["dt"], inp["t"], inp["tol"], inp["off"], inp["extrap"], inp.get("interp", "interp_linear"), inp["inplace"], inp["mode"])
    return {"reproduced": f is not None, "failure": f}
