"""C19 native oracle (bounded): every encoder over seeds: shape/dtype, silence at zero, refractory gap, reproducibility."""
from __future__ import annotations

import itertools
import math

from .common import torch
from inferno.neural import HomogeneousPoissonApproxEncoder, HomogeneousPoissonEncoder, PoissonIntervalEncoder


def encoders(steps, dt, freq, refrac, comp, seed):
    g = lambda: torch.Generator().manual_seed(seed)  # noqa: E731
    return {
        "refractory": lambda: HomogeneousPoissonEncoder(steps, dt, freq, refrac=refrac, compensate=comp, generator=g()),
        "bernoulli": lambda: HomogeneousPoissonApproxEncoder(steps, dt, freq, generator=g()),
        "interval": lambda: PoissonIntervalEncoder(steps, dt, freq, generator=g()),
    }


def check(kind, steps, dt, freq, refrac, comp, seed, online):
    inp = dict(kind=kind, steps=steps, dt=dt, freq=freq, refrac=refrac, compensate=comp, seed=seed, online=online)
    x = torch.tensor([[0.0, 1.0, 0.3], [0.75, 0.0, 1.0]])
    mk = encoders(steps, dt, freq, refrac, comp, seed)[kind]
    try:
        r = mk()(x, online=online)
        r = torch.stack(list(r), 0) if online else r
        r2 = mk()(x, online=online)
        r2 = torch.stack(list(r2), 0) if online else r2
    except Exception as e:
        return {"what": f"C19/{kind}/exception", "input": inp, "expected": "spike train", "actual": f"{type(e).__name__}: {e}"}
    if r.dtype != torch.bool or tuple(r.shape) != (steps, 2, 3):
        return {"what": f"C19/{kind}/shape_dtype", "input": inp, "expected": [steps, 2, 3, "bool"], "actual": [list(r.shape), str(r.dtype)]}
    if not torch.equal(r, r2):
        return {"what": f"C19/{kind}/reproducible", "input": inp, "expected": "same", "actual": "differs"}
    if r[:, x == 0].any():
        return {"what": f"C19/{kind}/silent_at_zero", "input": inp, "expected": 0, "actual": int(r[:, x == 0].sum())}
    if kind == "refractory":
        rho = max(1, round((dt if refrac is None else refrac) / dt))
        for b, i in itertools.product(range(2), range(3)):
            idx = r[:, b, i].nonzero().flatten()
            if idx.numel() > 1 and int((idx[1:] - idx[:-1]).min()) < rho:
                return {"what": f"C19/{kind}/refractory_gap", "input": dict(inp, elem=[b, i]), "expected": rho, "actual": int((idx[1:] - idx[:-1]).min())}
    return None


def config_cases():
    """encoder configuration through the setters: a refractory period ASSIGNED after construction is a given one (it
    stays when the step time changes), a derived one follows dt; and the generated train honours the period in force"""
    from inferno.neural import HomogeneousPoissonEncoder

    fails, n = [], 0
    for comp in (True, False):
        for r0 in (None, 2.0):
            n += 1
            e = HomogeneousPoissonEncoder(40, 1.0, 150.0, refrac=r0, compensate=comp, generator=torch.Generator().manual_seed(3))
            inp = dict(compensate=comp, constructed_with_refrac=r0)
            e.dt = 0.5
            want = 0.5 if r0 is None else r0
            if abs(e.refrac - want) > 1e-12:
                fails.append({"what": "C19/config/refrac_after_dt_change", "input": inp, "expected": want, "actual": e.refrac})
                continue
            e.refrac = 3.0
            e.dt = 1.0
            if abs(e.refrac - 3.0) > 1e-12 or abs(e.dt - 1.0) > 1e-12:
                fails.append({"what": "C19/config/assigned_refrac_lost_on_dt_change", "input": dict(inp, assigned=3.0, new_dt=1.0), "expected": [3.0, 1.0], "actual": [e.refrac, e.dt]})
                continue
            out = e(torch.ones(4), online=False)
            for j in range(4):
                t = torch.nonzero(out[:, j]).flatten().tolist()
                if any(b - a < 3 for a, b in zip(t, t[1:])):
                    fails.append({"what": "C19/config/train_ignores_assigned_refrac", "input": dict(inp, assigned=3.0), "expected": "gaps >= 3 steps", "actual": t})
                    break
    uniq = []
    for f in fails:
        if not any(u["what"] == f["what"] for u in uniq):
            uniq.append(f)
    return uniq, n


def sweep(tier="quick", seed=0, unsupported=()):
    failures, cases = [], 0
    cfgs = [(1.0, None), (1.0, 1.0), (1.0, 3.0), (0.5, 2.0), (0.1, 0.3), (0.1, 0.5), (0.1, 0.7), (0.25, 1.0)]
    seeds = range(12 if tier == "quick" else 200)
    for (dt, refrac), comp, online in itertools.product(cfgs, (True, False), (False, True)):
        for s in seeds:
            for kind in ("refractory", "bernoulli", "interval"):
                if kind != "refractory" and (refrac is not None or not comp):
                    continue
                cases += 1
                f = check(kind, 60, dt, 150.0 if comp else 400.0, refrac, comp, seed * 1000 + s, online)
                if f is not None and not any(x["what"] == f["what"] and x["input"]["online"] == online for x in failures):
                    failures.append(f)
    fc, nc = config_cases()
    failures.extend(fc)
    cases += nc
    return {"standins": [{"function": "encoder configuration through the setters (derived vs assigned refractory period across dt changes); 3 encoder classes offline and online: boolean (steps, *shape) output, silence at zero intensity, refractory gap >= round(refrac/dt) steps, reproducibility from equal generator state", "domain": f"{len(cfgs)} (dt, refrac) pairs incl. non-dyadic dt=0.1 with refrac in {{0.3,0.5,0.7}} x compensate x online/offline x {len(seeds)} seeds", "cases": cases, "proved": False, "label": "bounded"}], "failures": failures}


def replay(contract, label, model, note=""):
    r = sweep("quick", 0)
    if r["failures"]:
        return {"reproduced": True, "failure": r["failures"][0], "concrete": r["failures"][0]["input"]}
    return {"reproduced": False, "search": {"points_tried": r["standins"][0]["cases"]}}


def replay_native(rp):
    i = rp["input"]
    if str(rp.get("what", "")).startswith("C19/config"):
        fs, _ = config_cases()
        hit = [f for f in fs if f["what"] == rp.get("what")]
        return {"reproduced": bool(hit), "failure": hit[0] if hit else None}
    f = check(i["kind"], i["steps"], i["dt"], i["freq"], i["refrac"], i["compensate"], i["seed"], i["online"])
    return {"reproduced": f is not None, "failure": f}
