"""C01 native oracle: plain list-of-observations model vs the real RecordTensor (replay + bounded stand-in)."""
from __future__ import annotations

import itertools
import random

from .common import make_record, torch, view


def _conv(x, dtype):
    return x.to(dtype)


def run_op(N, ptr, op, dtype=torch.float32, obs_dtype=None, shape=(2,), **a):
    """Run one operation on the real record and on the list model. Returns None or a failure dict."""
    owner, rec, data = make_record(N, ptr, shape, dtype)
    m = view(rec)  # list model (k steps before write position)
    obs_dtype = obs_dtype or dtype
    call = f"{op}({', '.join(f'{k}={v}' for k, v in a.items())}) on N={N} ptr={ptr} dtype={dtype}"

    def fail(what, exp, act):
        return {"what": f"C01/{op}/{what}", "input": dict(N=N, ptr=ptr, op=op, dtype=str(dtype), **{k: (v if not torch.is_tensor(v) else v.tolist()) for k, v in a.items()}), "call": call,
                "expected": exp if not torch.is_tensor(exp) else exp.tolist(), "actual": act if not torch.is_tensor(act) else act.tolist()}

    def mk_obs(L=None):
        base = torch.arange(1, (L or 1) * 2 + 1, dtype=torch.float64).reshape(*( (2, L) if L else (2,))) * 0.5 + 100
        if obs_dtype == torch.bool:
            base = (base * 2) % 3 == 0
        return base.to(obs_dtype)

    try:
        if op == "read":
            r = rec.read(a["offset"])
            exp = m[a["offset"] % N]
            if not torch.equal(r, exp):
                return fail("value", exp, r)
        elif op in ("write", "push"):
            obs = mk_obs()
            if op == "write":
                rec.write(obs, a["offset"], inplace=a["inplace"])
                exp = list(m)
                exp[a["offset"] % N] = _conv(obs, dtype)
            else:
                rec.push(obs, inplace=a["inplace"])
                exp = [None] * N
                for k in range(N):
                    exp[k] = m[(k - 1) % N]
                exp[1 % N] = _conv(obs, dtype)
            act = view(rec)
            for k in range(N):
                if not torch.equal(act[k].to(torch.float64), exp[k].to(torch.float64)):
                    return fail(f"slot{k}", exp[k], act[k])
            if rec.value.shape[0] != N:
                return fail("size", N, rec.value.shape[0])
        elif op in ("incr", "decr", "pop"):
            if op == "pop":
                r = rec.pop()
                if not torch.equal(r, m[1 % N]):
                    return fail("returns_latest", m[1 % N], r)
                sh = 1
            else:
                getattr(rec, op)(a["pos"])
                sh = -a["pos"] if op == "incr" else a["pos"]
            act = view(rec)
            for k in range(N):
                if not torch.equal(act[k], m[(k + sh) % N]):
                    return fail(f"slot{k}", m[(k + sh) % N], act[k])
        elif op == "readrange":
            L, fwd = a["length"], a["forward"]
            off = a["offset"]
            r = rec.readrange(L, off, forward=fwd)
            if tuple(r.shape) != (*shape, L):
                return fail("shape", (*shape, L), tuple(r.shape))
            for e in itertools.product(*[range(s) for s in shape]):
                o = int(off[e]) if torch.is_tensor(off) else off
                for j in range(L):
                    k = (o - j) if fwd else (o + L - 1 - j)
                    if r[e][j] != m[k % N][e]:
                        return fail(f"elem{e}[{j}]", m[k % N][e].item(), r[e][j].item())
        elif op == "writerange":
            L, fwd, inplace = a["length"], a["forward"], a["inplace"]
            off = a["offset"]
            obs = mk_obs(L)
            rec.writerange(obs, off, forward=fwd, inplace=inplace)
            act = view(rec)
            if rec.value.shape[0] != N:
                return fail("size", N, rec.value.shape[0])
            for e in itertools.product(*[range(s) for s in shape]):
                exp = [m[k][e].to(torch.float64) for k in range(N)]
                o = int(off[e]) if torch.is_tensor(off) else off
                for j in range(L):
                    k = (o - j) if fwd else (o + L - 1 - j)
                    exp[k % N] = _conv(obs[e][j], rec.value.dtype).to(torch.float64)
                for k in range(N):
                    if act[k][e].to(torch.float64) != exp[k]:
                        return fail(f"slot{k}{e}", exp[k].item(), act[k][e].item())
        elif op == "align":
            rec.align(a["index"])
            act = view(rec)
            if rec.pointer != a["index"]:
                return fail("ptr", a["index"], rec.pointer)
            for k in range(N):
                if not torch.equal(act[k], m[k]):
                    return fail(f"slot{k}", m[k], act[k])
        elif op == "reset":
            rec.reset(a["fill"])
            act = view(rec)
            if rec.pointer != 0:
                return fail("ptr", 0, rec.pointer)
            for k in range(N):
                exp = m[k] if a["fill"] is None else torch.full_like(m[k], a["fill"])
                if not torch.equal(act[k], exp):
                    return fail(f"slot{k}", exp, act[k])
        else:
            raise ValueError(op)
    except Exception as e:  # an exception under the stated preconditions is itself a failure
        return fail("exception", "normal return", f"{type(e).__name__}: {e}")
    return None


def push_uninit(N, obs_dtype, storage):
    """first push into uninitialised storage adopts the observation dtype (when the record has none)"""
    import inferno

    owner = inferno.Module()
    val = None if storage == "none" else torch.empty(0, dtype=storage)
    inferno.RecordTensor.create(owner, "x", 1.0, float(N - 1), val, inclusive=True)
    rec = owner.x
    obs = (torch.tensor([1.5, 2.5]) if obs_dtype.is_floating_point else torch.tensor([1, 0])).to(obs_dtype)
    inp = dict(N=N, obs_dtype=str(obs_dtype), storage=str(storage))
    try:
        rec.push(obs)
    except Exception as e:
        return {"what": "C01/push_uninit/exception", "input": inp, "expected": "normal return", "actual": f"{type(e).__name__}: {e}"}
    if storage == "none" and rec.value.dtype != obs_dtype:
        return {"what": "C01/push_uninit/adopts_dtype", "input": inp, "expected": str(obs_dtype), "actual": str(rec.value.dtype), "stored": rec.peek().tolist(), "pushed": obs.tolist()}
    if storage != "none" and rec.value.dtype != storage:
        return {"what": "C01/push_uninit/typed_storage_keeps_its_dtype", "input": inp, "expected": str(storage), "actual": str(rec.value.dtype)}
    exp = obs.to(rec.value.dtype)
    if not torch.equal(rec.peek(), exp):
        return {"what": "C01/push_uninit/newest", "input": inp, "expected": exp.tolist(), "actual": rec.peek().tolist()}
    if rec.value.shape[0] != N or rec.pointer != 1 % N:
        return {"what": "C01/push_uninit/wf", "input": inp, "expected": [N, 1 % N], "actual": [rec.value.shape[0], rec.pointer]}
    return None


DT = {"float": torch.float32, "int": torch.int64, "bool": torch.bool}


def replay(contract, label, model, note=""):
    """Concretise a counter-model of a C01 obligation and run it on the real code against the list model."""
    N = int(model.get("N", 3))
    N = max(1, min(N, 48))
    ptr = int(model.get("ptr", 0)) % N
    g = lambda k, d=0: model.get(k, d)  # noqa: E731
    tries = []
    name = contract.split("[")[0].replace("RecordTensor.", "")
    od = dd = torch.float32
    mm = __import__("re").search(r"dtypes=\('(\w+)', '(\w+)'\)", note or "")
    if mm:
        od, dd = DT[mm.group(1)], DT[mm.group(2)]
    if name == "readrange":
        L = max(1, min(int(g("L", 1)), N))
        off = int(g("off", 1))
        if "tensor" in contract:
            tries.append(dict(op="readrange", length=L, offset=torch.full((2,), off, dtype=torch.int64), forward=bool(g("forward", False))))
        else:
            tries.append(dict(op="readrange", length=L, offset=off, forward=bool(g("forward", False))))
    elif name == "writerange":
        L = max(1, min(int(g("L", 1)), N))
        off = int(g("off", 0))
        o = torch.full((2,), off, dtype=torch.int64) if "tensor" in contract else off
        tries.append(dict(op="writerange", length=L, offset=o, forward=bool(g("forward", False)), inplace=bool(g("inplace", False))))
    elif name in ("read",):
        tries.append(dict(op="read", offset=int(g("off", 1))))
    elif name in ("write",):
        tries.append(dict(op="write", offset=int(g("off", 0)), inplace=bool(g("inplace", False))))
    elif name in ("push", "latest"):
        if "uninitialized" in contract:
            mo = __import__("re").search(r"storage=(\w+),obs_dtype=(\w+)", note or "")
            st, ob = (mo.group(1), mo.group(2)) if mo else ("none", "float")
            f = push_uninit(N, DT[ob], "none" if st == "none" else DT[st.split("_")[1]])
            return {"reproduced": f is not None, "failure": f, "concrete": dict(N=N, storage=st, obs_dtype=ob)}
        tries.append(dict(op="push", inplace=bool(g("inplace", False))))
    elif name in ("incr", "decr"):
        tries.append(dict(op=name, pos=int(g("p", 1))))
    elif name in ("pop", "peek"):
        tries.append(dict(op="pop"))
    elif name == "align":
        tries.append(dict(op="align", index=int(g("i", 0)) % N))
    elif name == "reset":
        tries.append(dict(op="reset", fill=0))
        tries.append(dict(op="reset", fill=None))
    elif name == "__init__":
        fv, nv = ctor_value_cases()
        if fv:
            return {"reproduced": True, "failure": fv[0], "concrete": fv[0]["input"], "search": {"points_tried": nv}}
        return {"reproduced": False, "search": {"points_tried": nv}}
    elif name == "defaults":
        # the defaults contract: every operation at its documented default arguments (explicitly passed here)
        L = max(1, min(int(g("L", 1)), N))
        tries += [dict(op="readrange", length=L, offset=1, forward=False), dict(op="read", offset=1), dict(op="write", offset=0, inplace=False), dict(op="writerange", length=L, offset=0, forward=False, inplace=False), dict(op="push", inplace=False), dict(op="incr", pos=1), dict(op="decr", pos=1), dict(op="pop")]
        for t in list(tries):
            op = t.pop("op")
            f = run_op(N, ptr, op, dtype=dd, obs_dtype=od, **t)
            if f is not None:
                return {"reproduced": True, "failure": f, "concrete": f["input"]}
        tried = 0
        for nm in ("readrange", "writerange", "read", "write", "push", "incr", "decr", "pop"):
            for N2 in (1, 2, 3):
                for p2 in range(N2):
                    for t in tries_for(nm, contract, N2):
                        tried += 1
                        op = t.pop("op")
                        f = run_op(N2, p2, op, dtype=dd, obs_dtype=od, **t)
                        if f is not None:
                            return {"reproduced": True, "failure": f, "concrete": f["input"], "search": {"points_tried": tried}}
        return {"reproduced": False, "search": {"points_tried": tried}}
    else:
        return None
    for t in tries:
        op = t.pop("op")
        f = run_op(N, ptr, op, dtype=dd, obs_dtype=od, **t)
        if f is not None:
            return {"reproduced": True, "failure": f, "concrete": dict(N=N, ptr=ptr, op=op, **{k: (v.tolist() if torch.is_tensor(v) else v) for k, v in t.items()})}
    # neighbourhood search around the model (bounded)
    tried = 0
    for N2 in sorted({N, 1, 2, 3}):
        for p2 in range(N2):
            for t in tries_for(name, contract, N2):
                tried += 1
                op = t.pop("op")
                f = run_op(N2, p2, op, dtype=dd, obs_dtype=od, **t)
                if f is not None:
                    return {"reproduced": True, "failure": f, "concrete": f["input"], "search": {"points_tried": tried}}
    return {"reproduced": False, "search": {"points_tried": tried}}


def tries_for(name, contract, N):
    out = []
    if name == "readrange":
        for L in range(1, N + 1):
            for off in range(0, 2 * N + 1):
                for fwd in (False, True):
                    o = torch.full((2,), off, dtype=torch.int64) if "tensor" in contract else off
                    out.append(dict(op="readrange", length=L, offset=o, forward=fwd))
    elif name == "writerange":
        for L in range(1, N + 1):
            for off in range(0, 2 * N + 1):
                for fwd in (False, True):
                    for inplace in (False, True):
                        o = torch.full((2,), off, dtype=torch.int64) if "tensor" in contract else off
                        out.append(dict(op="writerange", length=L, offset=o, forward=fwd, inplace=inplace))
    elif name in ("read",):
        out = [dict(op="read", offset=o) for o in range(0, 2 * N + 1)]
    elif name in ("write",):
        out = [dict(op="write", offset=o, inplace=i) for o in range(0, 2 * N + 1) for i in (False, True)]
    elif name in ("push", "latest"):
        out = [dict(op="push", inplace=i) for i in (False, True)]
    elif name in ("incr", "decr"):
        out = [dict(op=name, pos=p) for p in range(0, 2 * N + 1)]
    elif name in ("pop", "peek"):
        out = [dict(op="pop")]
    elif name == "align":
        out = [dict(op="align", index=i) for i in range(N)]
    elif name == "reset":
        out = [dict(op="reset", fill=0), dict(op="reset", fill=None)]
    return out


def replay_native(rp):
    inp = dict(rp["input"])
    if rp.get("what", "").startswith("C01/ctor_value"):
        fv, _ = ctor_value_cases()
        hit = [f for f in fv if f["what"] == rp.get("what")]
        return {"reproduced": bool(hit), "failure": hit[0] if hit else None}
    if rp.get("what", "").startswith("C01/push_uninit"):
        st = inp["storage"]
        f = push_uninit(inp["N"], getattr(torch, inp["obs_dtype"].split(".")[-1]), "none" if st == "none" else getattr(torch, st.split(".")[-1]))
        return {"reproduced": f is not None, "failure": f}
    op = inp.pop("op")
    N, ptr = inp.pop("N"), inp.pop("ptr")
    dt = getattr(torch, inp.pop("dtype").split(".")[-1])
    for k, v in list(inp.items()):
        if isinstance(v, list):
            inp[k] = torch.tensor(v)
    f = run_op(N, ptr, op, dtype=dt, **inp)
    return {"reproduced": f is not None, "failure": f}


def ctor_value_cases():
    """records constructed WITH an initial observation (the way synapses build their histories): every slot holds it, and
    after one push - in place or not - only the newest slot changed"""
    import inferno

    fails, n = [], 0
    for N in (2, 3, 5):
        for inplace in (True, False):
            for kind in ("tensor", "parameter", "scalar"):
                n += 1
                m = inferno.Module()
                # "scalar": 0-dimensional observations - their shape () is falsy although the storage is initialised
                v0 = torch.tensor(1.5) if kind == "scalar" else torch.tensor([1.5, -2.0])
                val = torch.nn.Parameter(v0.clone(), False) if kind == "parameter" else v0.clone()
                rec = inferno.RecordTensor(m, "x", 1.0, float(N - 1), val, inclusive=True)
                inp = dict(N=N, inplace=inplace, storage=kind)
                if rec.recordsz != N or any(not torch.equal(rec.read(k + 1), v0) for k in range(N)):
                    fails.append({"what": "C01/ctor_value/slots_hold_initial_observation", "input": inp, "expected": v0.tolist(), "actual": [rec.read(k + 1).tolist() for k in range(N)]})
                    continue
                obs = torch.tensor(7.0) if kind == "scalar" else torch.tensor([7.0, 9.0])
                rec.push(obs, inplace)
                got = [rec.read(k + 1) for k in range(N)]
                if not torch.equal(got[0], obs) or any(not torch.equal(g, v0) for g in got[1:]):
                    fails.append({"what": "C01/ctor_value/push_changes_only_the_newest_slot", "input": inp, "expected": [obs.tolist()] + [v0.tolist()] * (N - 1), "actual": [g.tolist() for g in got]})
    uniq = []
    for f in fails:
        if not any(u["what"] == f["what"] for u in uniq):
            uniq.append(f)
    return uniq, n


def sweep(tier="quick", seed=0, unsupported=()):
    """Bounded stand-in / cross-check: exhaustive over N <= Nmax, all pointers, offsets in [0,2N], lengths [1,N],
    forward/backward, scalar/tensor offset, in-place or not; plus the dtype matrix for conv."""
    Nmax = 3 if tier == "quick" else 5
    failures, cases = [], 0
    rnd = random.Random(seed)
    for N in range(1, Nmax + 1):
        for ptr in range(N):
            for name in ("read", "write", "push", "incr", "decr", "pop", "align", "reset", "readrange", "writerange"):
                for tensor_off in ((False, True) if name in ("readrange", "writerange") else (False,)):
                    for t in tries_for(name, "x[tensor]" if tensor_off else "x", N):
                        op = t.pop("op")
                        if tensor_off and "offset" in t:
                            # heterogeneous per-element offsets
                            t["offset"] = torch.tensor([int(t["offset"][0]), rnd.randrange(0, 2 * N + 1)], dtype=torch.int64)
                        cases += 1
                        f = run_op(N, ptr, op, **t)
                        if f is not None and len(failures) < 5 and not any(x["what"] == f["what"] for x in failures):
                            failures.append(f)
    # dtype matrix (conv clauses): torch's promotion table is an axiom of the proof, here exercised concretely
    for od, dd in itertools.product((torch.float32, torch.int64, torch.bool, torch.float64), repeat=2):
        for N in (1, 2, 3):
            for op, t in (("write", dict(offset=1, inplace=False)), ("write", dict(offset=2, inplace=True)), ("push", dict(inplace=False)), ("push", dict(inplace=True))):
                cases += 1
                f = run_op(N, N - 1, op, dtype=dd, obs_dtype=od, **t)
                if f is not None and len(failures) < 8 and not any(x["what"] == f["what"] for x in failures):
                    failures.append(f)
    for N in (1, 2, 3):
        for od in (torch.float32, torch.int64, torch.bool):
            for st in ("none", torch.float32, torch.int64):
                cases += 1
                f = push_uninit(N, od, st)
                if f is not None and not any(x["what"] == f["what"] for x in failures):
                    failures.append(f)
    fv, nv = ctor_value_cases()
    failures.extend(fv)
    cases += nv
    return {"standins": [{"function": "records constructed with an initial observation (independent slots); RecordTensor.* vs list model (real torch)", "domain": f"N<={Nmax}, all ptr, offsets [0,2N], lengths [1,N], fwd/bwd, scalar/tensor offset, inplace/not; dtype matrix 4x4; first push into none/empty storage", "cases": cases, "proved": False, "label": "bounded"}], "failures": failures}
