"""C13 native oracle (bounded): resizing records vs a list model; exhaustive enumeration of the constraint dict helpers."""
from __future__ import annotations

import itertools
import math

from .common import torch
import inferno
from inferno import Module, RecordTensor
from inferno.core import infrastructure as infra


def size(dt, dur, incl):
    return max(math.ceil(dur / dt) + int(incl), 1)


def resize_case(cfg0, cfg1, fill, storage, order):
    (dt0, du0, in0), (dt1, du1, in1) = cfg0, cfg1
    m = Module()
    val = {"none": None, "empty": torch.empty(0), "buffer": None, "parameter": None}[storage]
    RecordTensor.create(m, "x", dt0, du0, val, inclusive=in0)
    r = m.x
    inp = dict(cfg0=cfg0, cfg1=cfg1, fill=fill, storage=storage, order=order)
    if r.recordsz != size(*cfg0):
        return {"what": "C13/constructor_size", "input": inp, "expected": size(*cfg0), "actual": r.recordsz}
    hist = []
    if storage in ("buffer", "parameter"):
        if storage == "parameter":
            r.value = torch.nn.Parameter(torch.zeros(r.recordsz, 2), False)
        for i in range(fill):
            obs = torch.tensor([float(i + 1), -float(i + 1)])
            r.push(obs)
            hist.append(obs)
    try:
        for attr in order:
            setattr(r, attr, {"dt": dt1, "duration": du1, "inclusive": in1}[attr])
    except Exception as e:
        return {"what": "C13/setter_exception", "input": inp, "expected": "no exception", "actual": f"{type(e).__name__}: {e}"}
    final = (dt1 if "dt" in order else dt0, du1 if "duration" in order else du0, in1 if "inclusive" in order else in0)
    if r.recordsz != size(*final):
        return {"what": "C13/size_formula", "input": inp, "expected": size(*final), "actual": r.recordsz}
    if (r.dt, r.duration, r.inclusive) != final:
        return {"what": "C13/reports_back", "input": inp, "expected": list(final), "actual": [r.dt, r.duration, r.inclusive]}
    if hist:
        N1 = r.recordsz
        if r.value.shape[0] != N1:
            return {"what": "C13/storage_size", "input": inp, "expected": N1, "actual": r.value.shape[0]}
        # newest min(old, new, filled) observations at the same steps-before-present; older new slots zero
        sizes = [size(*cfg0)]
        cur = list(cfg0)
        for attr in order:
            cur[{"dt": 0, "duration": 1, "inclusive": 2}[attr]] = {"dt": dt1, "duration": du1, "inclusive": in1}[attr]
            sizes.append(size(*cur))
        keep = min(sizes)
        for k in range(1, N1 + 1):
            got = r.read(k)
            if k <= min(keep, len(hist)):
                exp = hist[-k]
            elif k > keep or k > len(hist):
                exp = torch.zeros(2) if (k > min(keep, len(hist))) else None
            if exp is not None and not torch.equal(got, exp) and (k <= min(keep, len(hist)) or k > max(sizes[0], len(hist))):
                return {"what": "C13/history_preserved", "input": dict(inp, k=k), "expected": exp.tolist(), "actual": got.tolist()}
    return None


def dict_helpers(tier):
    out, cases = [], 0
    dims = range(-3, 3)
    sizes = range(0, 3)
    keysets = [()] + [(d,) for d in dims] + [p for p in itertools.combinations(dims, 2)]
    if tier != "quick":
        keysets += [p for p in itertools.combinations(dims, 3)]
    for keys in keysets:
        for vals in itertools.product(sizes, repeat=len(keys)):
            cons = dict(zip(keys, vals))
            for strict in (True, False):
                cases += 1
                got = infra._constraint_dimensionality(cons, strict)
                if not cons:
                    exp = 0
                elif strict:
                    exp = max(max(cons) + 1, 0) - min(min(cons), 0)
                else:
                    exp = max(max(cons) + 1, abs(min(cons)))
                if got != exp:
                    out.append({"what": "C13/_constraint_dimensionality", "input": dict(constraints=cons, strict=strict), "expected": exp, "actual": got})
                for nd in range(0, 5):
                    shape = tuple((3 * i + 1) % 3 for i in range(nd))
                    t = torch.zeros(shape)
                    got = infra._constraints_compatible(t, cons, strict)
                    expc = nd >= exp and all(-nd <= d < nd and t.shape[d] == s for d, s in cons.items())
                    cases += 1
                    if bool(got) != bool(expc):
                        out.append({"what": "C13/_constraints_compatible", "input": dict(constraints=cons, strict=strict, shape=list(shape)), "expected": expc, "actual": got})
                        break
            for nd in range(1, 5):
                if all(-nd <= d < nd for d in cons):
                    cases += 1
                    got = infra._constraints_consistent(cons, nd)
                    norm = {}
                    exp = True
                    for d, s in cons.items():
                        if norm.setdefault(d % nd, s) != s:
                            exp = False
                    if got != exp:
                        out.append({"what": "C13/_constraints_consistent", "input": dict(constraints=cons, ndims=nd), "expected": exp, "actual": got})
    return out[:5], cases


def reconstrain_cases():
    """ShapedTensor.reconstrain on real storage: an accepted add/remove changes exactly that constraint, a refused one
    (size incompatible with the data, or removal of an unconstrained dim) leaves constraints, data and validity as they
    were, and the right constraint can still be added afterwards"""
    from inferno.core.infrastructure import ShapedTensor

    fails, n = [], 0
    for shape in ((3, 4), (2, 3, 4), (5,)):
        for kind in ("buffer", "parameter"):
            for strict in (True, False):
                for dim in range(-len(shape), len(shape)):
                    for wrong in (shape[dim] + 1, 0 if shape[dim] != 0 else 1):
                        n += 1
                        m = Module()
                        data = torch.rand(*shape)
                        st = ShapedTensor(m, "x", torch.nn.Parameter(data, False) if kind == "parameter" else data, None, strict=strict)
                        before_c, before_v = dict(st.constraints), st.valid
                        val0 = st.value.clone()
                        raised = None
                        try:
                            st.reconstrain(dim, wrong)
                        except Exception as e:  # noqa: BLE001
                            raised = type(e).__name__
                        inp = dict(shape=list(shape), storage=kind, dim=dim, refused_size=wrong)
                        if raised is None:
                            # an accepted incompatible constraint must at least be reported invalid
                            if st.valid:
                                fails.append({"what": "C13/reconstrain/incompatible_add_accepted_and_valid", "input": inp, "expected": "ValueError or invalid", "actual": "accepted"})
                            continue
                        if dict(st.constraints) != before_c or st.valid != before_v or not torch.equal(st.value, val0):
                            fails.append({"what": "C13/reconstrain/refused_add_has_side_effects", "input": inp, "expected": {"constraints": {str(k): v for k, v in before_c.items()}, "valid": before_v}, "actual": {"constraints": {str(k): v for k, v in dict(st.constraints).items()}, "valid": st.valid}})
                            continue
                        try:
                            st.reconstrain(dim, shape[dim])
                            ok = st.valid and dict(st.constraints) == {**before_c, dim: shape[dim]}
                        except Exception as e:  # noqa: BLE001
                            ok = False
                        if not ok:
                            fails.append({"what": "C13/reconstrain/right_constraint_after_refusal", "input": inp, "expected": "accepted", "actual": "refused or wrong bookkeeping"})
    uniq = []
    for f in fails:
        if not any(x["what"] == f["what"] for x in uniq):
            uniq.append(f)
    return uniq, n


def uninitialised_reconstrain_cases():
    """RecordTensor.reconstrain while the storage is not initialised yet (None, empty tensor, empty parameter, lazy
    buffer): constraints can be added / edited / removed without an error and are honoured once data arrives"""
    import torch.nn as nn

    fails, n = [], 0
    for kind, mk in (("none", lambda: None), ("empty", lambda: torch.empty(0)), ("param_empty", lambda: nn.Parameter(torch.empty(0), False)), ("uninit_buffer", lambda: nn.UninitializedBuffer())):
        n += 1
        m = Module()
        inp = dict(storage=kind)
        try:
            rec = RecordTensor(m, "x", 1.0, 2.0, mk())
            rec.reconstrain(0, 4)
            rec.reconstrain(0, 3)
            rec.reconstrain(-1, 3)
            rec.reconstrain(-1, None)
            ok = dict(rec.constraints).get(0) == 3 and -1 not in dict(rec.constraints) and rec.recordsz == 2  # the public view of the constraints leaves the time axis out
        except Exception as e:  # noqa: BLE001
            fails.append({"what": "C13/reconstrain/uninitialised_storage_raises", "input": inp, "expected": "bookkeeping only", "actual": f"{type(e).__name__}: {e}"})
            continue
        if not ok:
            fails.append({"what": "C13/reconstrain/uninitialised_storage_bookkeeping", "input": inp, "expected": {"0": 3}, "actual": {str(k): v for k, v in dict(rec.constraints).items()}})
    uniq = []
    for f in fails:
        if not any(u["what"] == f["what"] for u in uniq):
            uniq.append(f)
    return uniq, n


def nonstrict_cases():
    """a NON-strict record whose constraints name one observation dimension twice (positive and negative index) is valid,
    reports strict == False, and resizes like any other record"""
    fails, n = [], 0
    for shape, cons in (((4,), {0: 4, -1: 4}), ((2, 3), {1: 3, -1: 3}), ((2, 3), {0: 2, -2: 2})):
        for which, val in (("dt", 0.5), ("duration", 5.0), ("inclusive", True)):
            n += 1
            m = Module()
            inp = dict(obs_shape=list(shape), constraints={str(k): v for k, v in cons.items()}, setter=which, value=val)
            try:
                rec = RecordTensor(m, "x", 1.0, 2.0, torch.zeros(*shape), constraints=dict(cons), strict=False)
            except Exception as e:  # noqa: BLE001
                fails.append({"what": "C13/nonstrict/construction_refused", "input": inp, "expected": "a valid non-strict record", "actual": f"{type(e).__name__}: {e}"})
                continue
            if rec.strict is not False or not rec.valid:
                fails.append({"what": "C13/nonstrict/flag_or_validity", "input": inp, "expected": dict(strict=False, valid=True), "actual": dict(strict=rec.strict, valid=rec.valid)})
                continue
            for k in range(3):
                rec.push(torch.full(shape, float(k + 1)))
            try:
                setattr(rec, which, val)
            except Exception as e:  # noqa: BLE001
                fails.append({"what": "C13/nonstrict/resize_raises", "input": inp, "expected": "resized", "actual": f"{type(e).__name__}: {e}"})
                continue
            want = size(rec.dt, rec.duration, rec.inclusive)
            if rec.recordsz != want or rec.value.shape[0] != want or not rec.valid:
                fails.append({"what": "C13/nonstrict/size_formula", "input": inp, "expected": want, "actual": [rec.recordsz, list(rec.value.shape), rec.valid]})
    uniq = []
    for f in fails:
        if not any(u["what"] == f["what"] for u in uniq):
            uniq.append(f)
    return uniq, n


def sweep(tier="quick", seed=0, unsupported=()):
    failures, cases = [], 0
    cfgs = [(1.0, 0.0, False), (1.0, 0.0, True), (1.0, 3.0, True), (0.5, 2.0, False), (0.3, 1.0, True), (1.3, 2.6, False), (0.1, 0.3, True), (2.0, 5.0, True)]
    if tier == "quick":
        cfgs = cfgs[:6]
    # ratios one ulp above 2^k - 1 (2.1/0.7 = 3.0000000000000004, 4.2/0.6, 10.5/0.7): ceil(ratio) + inclusive and
    # ceil(ratio + inclusive) differ in floating point, so every setter must use the constructor's form of the formula
    cfgs = cfgs + [(0.7, 2.1, True), (0.6, 4.2, True), (0.7, 10.5, False)]
    orders = [("dt",), ("duration",), ("inclusive",), ("dt", "duration", "inclusive"), ("inclusive", "dt")]
    for c0, c1 in itertools.product(cfgs, repeat=2):
        for storage in ("none", "empty", "buffer", "parameter"):
            for fill in ((0,) if storage in ("none", "empty") else (1, 3, 7)):
                for order in orders:
                    cases += 1
                    f = resize_case(c0, c1, fill, storage, order)
                    if f is not None and not any(x["what"] == f["what"] for x in failures):
                        failures.append(f)
    f2, n2 = dict_helpers(tier)
    for f in f2:
        if not any(x["what"] == f["what"] for x in failures):
            failures.append(f)
    f5, n5 = uninitialised_reconstrain_cases()
    for f in f5:
        if not any(x["what"] == f["what"] for x in failures):
            failures.append(f)
    cases += n5
    f4, n4 = nonstrict_cases()
    for f in f4:
        if not any(x["what"] == f["what"] for x in failures):
            failures.append(f)
    cases += n4
    f3, n3 = reconstrain_cases()
    for f in f3:
        if not any(x["what"] == f["what"] for x in failures):
            failures.append(f)
    return {"standins": [
        {"function": "ShapedTensor.reconstrain on real storage: refused adds leave constraints / data / validity untouched and the right constraint is still accepted", "domain": "3 shapes x every dim (positive and negative) x 2 incompatible sizes", "cases": n3, "proved": False, "label": "bounded"},
        {"function": "RecordTensor dt/duration/inclusive setters vs list model (size formula, newest observations kept, zero fill, uninitialised storage)", "domain": f"{len(cfgs)}^2 before/after (dt,duration,inclusive) pairs incl. non-representable ratios x none/empty/buffer/parameter storage x fill levels x 5 setter orders", "cases": cases, "proved": False, "label": "bounded"},
        {"function": "_constraint_dimensionality / _constraints_compatible / _constraints_consistent", "domain": "dicts of size <= 2 (3 thorough), dims in [-3,2], sizes in [0,2], ndim <= 4: exhaustive", "cases": n2, "proved": False, "label": "bounded", "exhaustive": True}],
        "failures": failures}


def replay(contract, label, model, note=""):
    r = sweep("quick", 0)
    if r["failures"]:
        return {"reproduced": True, "failure": r["failures"][0], "concrete": r["failures"][0]["input"]}
    dt, dur = float(model.get("dt", 1.0)) or 1.0, float(model.get("dur", 0.0))
    new = model.get("new_dt", model.get("new_dur", None))
    tried = 0
    for storage in ("none", "buffer"):
        for which, val in (("dt", model.get("new_dt")), ("duration", model.get("new_dur")), ("inclusive", model.get("new_incl"))):
            if val is None:
                continue
            tried += 1
            c1 = (float(val) if which == "dt" else dt, float(val) if which == "duration" else dur, bool(val) if which == "inclusive" else bool(model.get("incl", False)))
            f = resize_case((dt, dur, bool(model.get("incl", False))), c1, 3, storage, (which,))
            if f:
                return {"reproduced": True, "failure": f, "concrete": f["input"]}
    return {"reproduced": False, "search": {"points_tried": r["standins"][0]["cases"] + tried}}


def replay_native(rp):
    i = rp["input"]
    if "cfg0" in i:
        f = resize_case(tuple(i["cfg0"]), tuple(i["cfg1"]), i["fill"], i["storage"], tuple(i["order"]))
        return {"reproduced": f is not None, "failure": f}
    if str(rp.get("what", "")).startswith("C13/reconstrain/uninitialised"):
        f, _ = uninitialised_reconstrain_cases()
        f = [x for x in f if x["what"] == rp.get("what")]
        return {"reproduced": bool(f), "failure": f[0] if f else None}
    if str(rp.get("what", "")).startswith("C13/nonstrict"):
        f, _ = nonstrict_cases()
        f = [x for x in f if x["what"] == rp.get("what")]
        return {"reproduced": bool(f), "failure": f[0] if f else None}
    if str(rp.get("what", "")).startswith("C13/reconstrain"):
        f, _ = reconstrain_cases()
        f = [x for x in f if x["what"] == rp.get("what")]
        return {"reproduced": bool(f), "failure": f[0] if f else None}
    f, _ = dict_helpers("quick")
    return {"reproduced": bool(f), "failure": f[0] if f else None}
