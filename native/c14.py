"""C14 native oracle (bounded): setter-built vs freshly constructed components: reported config, history sizes, outputs."""
from __future__ import annotations

import itertools

from .common import torch
from inferno.neural import DeltaCurrent, DeltaPlusCurrent, DoubleExponentialCurrent, LIF, LinearDense, SingleExponentialCurrent
from inferno.observe import CumulativeTraceReducer, PassthroughReducer

SYN = {
    "delta": lambda dt, delay, B: DeltaCurrent((3,), dt, spike_charge=1.5, delay=delay, batch_size=B),
    "deltaplus": lambda dt, delay, B: DeltaPlusCurrent((3,), dt, spike_charge=1.5, delay=delay, batch_size=B),
    "single": lambda dt, delay, B: SingleExponentialCurrent((3,), dt, spike_charge=1.5, time_constant=4.0, delay=delay, batch_size=B),
    "double": lambda dt, delay, B: DoubleExponentialCurrent((3,), dt, spike_charge=1.5, tc_decay=6.0, tc_rise=2.0, delay=delay, batch_size=B),
}


def records(obj):
    out = {}
    for name in ("spike_", "current_", "pos_current_", "neg_current_", "data_"):
        r = getattr(obj, name, None)
        if r is not None and hasattr(r, "recordsz"):
            out[name] = (r.dt, r.duration, r.inclusive, r.recordsz, None if r.value is None else tuple(r.value.shape), None if r.value is None else str(r.value.dtype))
    return out


def syn_case(kind, c0, c1, order):
    a = SYN[kind](*c0)
    new = dict(dt=c1[0], delay=c1[1], batchsz=c1[2])
    inp = dict(kind=kind, cfg0=c0, cfg1=c1, order=order)
    cur = dict(dt=c0[0], delay=c0[1], batchsz=c0[2])
    for n in order:
        before = {k: getattr(a, k) for k in cur}
        try:
            setattr(a, n, new[n])
        except Exception as e:
            return {"what": "C14/synapse/setter_exception", "input": dict(inp, attr=n), "expected": "ok", "actual": f"{type(e).__name__}: {e}"}
        cur[n] = new[n]
        for k in cur:
            if getattr(a, k) != (new[n] if k == n else before[k]):
                return {"what": "C14/synapse/reports_or_isolation", "input": dict(inp, attr=n, other=k), "expected": new[n] if k == n else before[k], "actual": getattr(a, k)}
    b = SYN[kind](cur["dt"], cur["delay"], cur["batchsz"])
    if records(a) != records(b):
        return {"what": "C14/synapse/sized_as_fresh", "input": inp, "expected": str(records(b)), "actual": str(records(a))}
    a.clear(); b.clear()
    torch.manual_seed(0)
    for t in range(6):
        x = (torch.rand(cur["batchsz"], 3) < 0.5).float()
        ya, yb = a(x), b(x)
        if not torch.equal(ya, yb):
            return {"what": "C14/synapse/outputs_from_cleared_state", "input": dict(inp, step=t), "expected": yb.tolist(), "actual": ya.tolist()}
        if cur["delay"] > 0:
            sel = torch.full((cur["batchsz"], 3, 1), cur["delay"])
            try:
                ca, cb = a.current_at(sel), b.current_at(sel)
            except Exception as e:
                return {"what": "C14/synapse/read_at_max_delay", "input": dict(inp, step=t), "expected": "value", "actual": f"{type(e).__name__}: {e}"}
            if not torch.equal(ca, cb):
                return {"what": "C14/synapse/delayed_read", "input": dict(inp, step=t), "expected": cb.tolist(), "actual": ca.tolist()}
    return None


def reducer_case(mk, c0, c1, order):
    a = mk(*c0)
    a(torch.ones(2))
    new = dict(dt=c1[0], duration=c1[1])
    cur = dict(dt=c0[0], duration=c0[1])
    inp = dict(cfg0=c0, cfg1=c1, order=order)
    for n in order:
        before = dict(dt=a.dt, duration=a.duration)
        try:
            setattr(a, n, new[n])
        except Exception as e:
            return {"what": "C14/reducer/setter_exception", "input": dict(inp, attr=n), "expected": "ok", "actual": f"{type(e).__name__}: {e}"}
        cur[n] = new[n]
        for k in cur:
            if getattr(a, k) != (new[n] if k == n else before[k]):
                return {"what": "C14/reducer/reports_or_isolation", "input": dict(inp, attr=n, other=k), "expected": new[n] if k == n else before[k], "actual": getattr(a, k)}
    b = mk(cur["dt"], cur["duration"])
    a.clear(); b.clear()
    for t in range(5):
        x = torch.tensor([float(t % 2), 1.0])
        a(x); b(x)
        if records(a)["data_"][:4] != records(b)["data_"][:4] or not torch.equal(a.dump(), b.dump()):
            return {"what": "C14/reducer/as_fresh", "input": dict(inp, step=t), "expected": str(records(b)), "actual": str(records(a))}
    return None


def conn_case(c0, c1):
    mk = lambda dt, delay, B: LinearDense((3,), (2,), dt, synapse=DeltaCurrent.partialconstructor(1.5), delay=(delay or None), batch_size=B)  # noqa: E731
    a = mk(*c0)
    inp = dict(cfg0=c0, cfg1=c1)
    try:
        a.dt = c1[0]
        a.batchsz = c1[2]
        new_syn = SingleExponentialCurrent((3,), c1[0], spike_charge=1.0, time_constant=5.0, delay=c0[1], batch_size=c1[2])
        a.synapse = new_syn
    except Exception as e:
        return {"what": "C14/connection/setter_exception", "input": inp, "expected": "ok", "actual": f"{type(e).__name__}: {e}"}
    if a.dt != c1[0] or a.batchsz != c1[2] or a.synapse is not new_syn:
        return {"what": "C14/connection/reports_back", "input": inp, "expected": [c1[0], c1[2], "new synapse"], "actual": [a.dt, a.batchsz, a.synapse is new_syn]}
    x = torch.ones(c1[2], 3)
    out = a(x)
    if tuple(out.shape) != (c1[2], 2):
        return {"what": "C14/connection/output_shape", "input": inp, "expected": [c1[2], 2], "actual": list(out.shape)}
    return None


def neuron_case(B0, B1, dt0, dt1, warm):
    """a LIF driven for `warm` steps, then reconfigured through its batchsz / dt setters, against a freshly constructed
    neuron of the new configuration: reported config, state at rest for every sample, then identical outputs"""
    mk = lambda dt, B: LIF((3,), dt, rest_v=-60.0, reset_v=-65.0, thresh_v=-50.0, refrac_t=2.0, time_constant=20.0, resistance=1.0, batch_size=B)  # noqa: E731
    inp = dict(kind="LIF", B0=B0, B1=B1, dt0=dt0, dt1=dt1, warm=warm)
    a = mk(dt0, B0)
    torch.manual_seed(3)
    for _ in range(warm):
        a(torch.rand(B0, 3) * 40)
    a.batchsz = B1
    a.dt = dt1
    b = mk(dt1, B1)
    if a.batchsz != B1 or abs(a.dt - dt1) > 1e-12:
        return {"what": "C14/LIF/reported_configuration", "input": inp, "expected": [B1, dt1], "actual": [a.batchsz, a.dt]}
    if B1 != B0:
        for name in ("voltage", "refrac", "spike"):
            va, vb = getattr(a, name), getattr(b, name)
            if va.shape != vb.shape or not torch.equal(va.to(vb.dtype), vb):
                return {"what": f"C14/LIF/{name}_after_batch_resize_is_not_rest", "input": inp, "expected": vb.flatten().tolist()[:6], "actual": va.flatten().tolist()[:6]}
        torch.manual_seed(5)
        for t in range(6):
            x = torch.rand(B1, 3) * 40
            ya, yb = a(x), b(x)
            if not torch.equal(ya, yb) or not torch.allclose(a.voltage, b.voltage, atol=1e-6):
                return {"what": "C14/LIF/outputs_after_batch_resize", "input": dict(inp, step=t), "expected": yb.flatten().tolist()[:6], "actual": ya.flatten().tolist()[:6]}
    return None


def sweep(tier="quick", seed=0, unsupported=()):
    failures, cases = [], 0
    cfgs = [(1.0, 0.0, 1), (1.0, 2.0, 3), (0.5, 2.6, 1), (1.3, 2.6, 3), (2.0, 5.0, 2), (4.0, 5.0, 1)]
    if tier == "quick":
        cfgs = cfgs[:5]
    orders = [("dt", "delay", "batchsz"), ("batchsz", "delay", "dt"), ("delay",), ("dt",)]

    def add(f):
        if f is not None and not any(x["what"] == f["what"] for x in failures):
            failures.append(f)

    for kind in SYN:
        for c0, c1 in itertools.product(cfgs, repeat=2):
            for order in orders:
                cases += 1
                add(syn_case(kind, c0, c1, order))
    rcfg = [(1.0, 0.0), (1.0, 2.0), (0.5, 2.0), (2.0, 5.0), (4.0, 5.0), (1.3, 2.6)]
    for mk in (lambda dt, du: PassthroughReducer(dt, duration=du), lambda dt, du: CumulativeTraceReducer(dt, 5.0, 0.5, True, duration=du)):
        for c0, c1 in itertools.product(rcfg, repeat=2):
            for order in (("dt", "duration"), ("duration", "dt"), ("duration",)):
                cases += 1
                add(reducer_case(mk, c0, c1, order))
    for c0, c1 in itertools.product(cfgs[:4], repeat=2):
        cases += 1
        add(conn_case(c0, c1))
    for B0, B1 in ((1, 3), (3, 1), (2, 4), (2, 2)):
        for dt0, dt1 in ((1.0, 1.0), (1.0, 0.5)):
            for warm in (0, 5):
                cases += 1
                add(neuron_case(B0, B1, dt0, dt1, warm))
    return {"standins": [{"function": "LIF batchsz/dt setters after a warm-up vs a fresh neuron; synapses / reducers / LinearDense: setter-built vs fresh component (reported config, record sizes, outputs and max-delay reads from a cleared state)", "domain": f"{len(cfgs)}^2 (dt,delay,batch) pairs x 4 setter orders x 4 synapses; 36 reducer pairs x 3 orders x 2 classes; connection dt/batchsz/synapse setters", "cases": cases, "proved": False, "label": "bounded"}], "failures": failures}


def replay(contract, label, model, note=""):
    if contract.startswith("RecordTensor."):
        # the record setter contracts are shared with C13: its oracle drives the real setters against the list model
        from . import c13

        r13 = c13.replay(contract, label, model, note)
        if r13 and r13.get("reproduced"):
            return r13
    r = sweep("quick", 0)
    if r["failures"]:
        return {"reproduced": True, "failure": r["failures"][0], "concrete": r["failures"][0]["input"]}
    return {"reproduced": False, "search": {"points_tried": r["standins"][0]["cases"]}}


def replay_native(rp):
    r = sweep("quick", 0)
    hit = [f for f in r["failures"] if f["what"] == rp.get("what")]
    return {"reproduced": bool(hit), "failure": hit[0] if hit else None}
