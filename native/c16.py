"""C16 native oracle (bounded): random operation sequences on real hooks incl. object deletion + gc.collect()."""
from __future__ import annotations

import gc
import random

from .common import torch
import inferno
from inferno import Hook
from inferno.neural import Clamping, Normalization


class Net(inferno.Module):
    def __init__(self):
        super().__init__()
        self.register_buffer("weight", torch.tensor([[3.0, -4.0], [0.0, 0.0], [0.5, 0.25]]))

    def forward(self, x=None):
        return x


def run_seq(seed, length=10):
    rnd = random.Random(seed)
    net = Net()
    cnt = {"pre": 0, "post": 0}
    tr, ev = rnd.random() < 0.7, rnd.random() < 0.7
    place = rnd.choice(["pre", "post", "both"])
    pre = (lambda m, a: cnt.__setitem__("pre", cnt["pre"] + 1)) if place in ("pre", "both") else None
    post = (lambda m, a, o: cnt.__setitem__("post", cnt["post"] + 1)) if place in ("post", "both") else None
    h = Hook(pre, post, train_update=tr, eval_update=ev)
    registered, alive = False, True
    ops = []
    for _ in range(length):
        op = rnd.choice(["register", "deregister", "train", "eval", "call", "call", "delete"])
        ops.append(op)
        inp = dict(seed=seed, ops=list(ops), train_update=tr, eval_update=ev, placement=place)
        try:
            if op == "register" and alive:
                if registered:
                    try:
                        h.register(net)
                        return {"what": "C16/double_register_accepted", "input": inp, "expected": "RuntimeError", "actual": "ok"}
                    except RuntimeError:
                        pass
                else:
                    h.register(net)
                    registered = True
            elif op == "deregister" and alive:
                h.deregister()
                registered = False
            elif op == "train":
                net.train()
            elif op == "eval":
                net.eval()
            elif op == "delete" and alive:
                del h
                gc.collect()
                alive, registered = False, False
            elif op == "call":
                before = dict(cnt)
                net(1)
                armed = registered and ((tr and net.training) or (ev and not net.training))
                exp = {"pre": before["pre"] + (1 if armed and place in ("pre", "both") else 0), "post": before["post"] + (1 if armed and place in ("post", "both") else 0)}
                if cnt != exp:
                    return {"what": "C16/fire_count", "input": inp, "expected": exp, "actual": dict(cnt)}
            n_handles = len(net._forward_hooks) + len(net._forward_pre_hooks)
            exp_h = (2 if place == "both" else 1) if registered else 0
            if n_handles != exp_h:
                return {"what": "C16/dangling_handle", "input": inp, "expected": exp_h, "actual": n_handles}
        except Exception as e:
            return {"what": "C16/exception", "input": inp, "expected": "no exception", "actual": f"{type(e).__name__}: {e}"}
    return None


def state_hooks(seed):
    torch.manual_seed(seed)
    net = Net()
    cl = Clamping(net, "weight", min=-1.0, max=2.0)
    cl.register()
    net(1)
    if net.weight.min() < -1.0 or net.weight.max() > 2.0:
        return {"what": "C16/clamping_range", "input": dict(seed=seed), "expected": [-1.0, 2.0], "actual": [net.weight.min().item(), net.weight.max().item()]}
    cl.deregister()
    for order, scale, dim in ((2, 3.0, -1), (1, -2.0, -1), (2, 0.5, 0)):
        net = Net()
        nz = Normalization(net, "weight", order, scale, dim)
        nz.register()
        net(1)
        w0 = Net().weight
        nrm0 = torch.linalg.vector_norm(w0, ord=order, dim=dim)
        nrm = torch.linalg.vector_norm(net.weight, ord=order, dim=dim)
        exp = torch.where(nrm0 > 0, torch.full_like(nrm0, abs(scale)), torch.zeros_like(nrm0))
        if not torch.allclose(nrm, exp, atol=1e-5):
            return {"what": "C16/normalization_norm", "input": dict(order=order, scale=scale, dim=dim), "expected": exp.tolist(), "actual": nrm.tolist()}
        nz.deregister()
        before = net.weight.clone()
        net(1)
        if not torch.equal(before, net.weight):
            return {"what": "C16/runs_after_deregister", "input": dict(order=order), "expected": "unchanged", "actual": "changed"}
        # manual trigger rules
        net.weight = Net().weight.clone()
        nz.forward()
        if not torch.equal(net.weight, Net().weight):
            return {"what": "C16/manual_forward_unregistered_ran", "input": {}, "expected": "no-op", "actual": "ran"}
        nz.forward(force=True)
        if torch.equal(net.weight, Net().weight):
            return {"what": "C16/manual_forward_forced_did_not_run", "input": {}, "expected": "ran", "actual": "no-op"}
    return None


def clamping_bounds():
    """Clamping with every one-/two-sided bound combination, including a bound that is exactly 0: after the hook ran,
    every element is >= min (when given) and <= max (when given) and elements already inside are untouched"""
    fails, n = [], 0
    for mn, mx in ((None, 2.0), (-1.0, None), (-1.0, 2.0), (0.0, None), (None, 0.0), (0.0, 2.0), (-5.0, 0.0), (0.25, 0.5)):
        n += 1
        net = Net()
        w0 = net.weight.clone()
        cl = Clamping(net, "weight", min=mn, max=mx)
        cl.register()
        exp = w0.clamp(min=mn, max=mx)
        try:
            net(1)
        except Exception as e:  # noqa: BLE001
            fails.append({"what": "C16/clamping_bounds", "input": dict(min=mn, max=mx), "expected": exp.flatten().tolist(), "actual": f"{type(e).__name__}: {e}"})
            break
        if not torch.equal(net.weight, exp):
            fails.append({"what": "C16/clamping_bounds", "input": dict(min=mn, max=mx), "expected": exp.flatten().tolist(), "actual": net.weight.flatten().tolist()})
            break
        cl.deregister()
    return fails, n


def manual_trigger_table():
    """StateHook.forward(force, ignore_mode) for every combination of registered / force / ignore_mode / module mode /
    train_update / eval_update: the hook body runs iff (registered or force) and (ignore_mode or the module's current
    mode is enabled for the hook); a module call runs it iff registered and the mode is enabled"""
    import itertools

    fails, n = [], 0
    for reg, force, ign, training, tu, eu in itertools.product((False, True), repeat=6):
        n += 1
        net = Net()
        net.train(training)
        cl = Clamping(net, "weight", min=-1.0, max=2.0, train_update=tu, eval_update=eu)
        if reg:
            cl.register()
        w0 = net.weight.clone()
        cl.forward(force=force, ignore_mode=ign)
        ran = not torch.equal(net.weight, w0)
        want = (reg or force) and (ign or (tu if training else eu))
        inp = dict(registered=reg, force=force, ignore_mode=ign, training=training, train_update=tu, eval_update=eu)
        if ran != want:
            fails.append({"what": "C16/manual_trigger_truth_table", "input": inp, "expected": want, "actual": ran})
            break
        net.weight = w0.clone()
        net(1)
        ran2 = not torch.equal(net.weight, w0)
        want2 = reg and (tu if training else eu)
        if ran2 != want2:
            fails.append({"what": "C16/module_call_runs_hook_iff_armed", "input": inp, "expected": want2, "actual": ran2})
            break
    return fails, n


def normalization_small_norms():
    """Normalization on rows whose norm is small but not below epsilon: the result still has norm |scale| (the documented
    epsilon is a lower clamp of the norm, it must not leak into ordinary rows), zero rows stay zero"""
    fails, n = [], 0
    for dtype in (torch.float32, torch.float64):
        for order, scale, eps in ((2, 1.0, 1e-12), (1, -2.0, 1e-12), (2, 3.0, 1e-9)):
            n += 1
            net = Net()
            net.weight = torch.tensor([[3e-10, -4e-10], [0.0, 0.0], [6e-7, 8e-7], [0.5, 0.25]], dtype=dtype)
            w0 = net.weight.clone()
            nz = Normalization(net, "weight", order, scale, -1, epsilon=eps)
            nz.register()
            net(1)
            nrm0 = torch.linalg.vector_norm(w0.double(), ord=order, dim=-1)
            nrm = torch.linalg.vector_norm(net.weight.double(), ord=order, dim=-1)
            exp = torch.where(nrm0 >= eps, torch.full_like(nrm0, abs(scale)), abs(scale) * nrm0 / eps)  # below epsilon: v / eps
            if not torch.allclose(nrm, exp, atol=1e-5 * abs(scale), rtol=1e-5):
                fails.append({"what": "C16/normalization_small_norms", "input": dict(order=order, scale=scale, epsilon=eps, dtype=str(dtype), row_norms=nrm0.tolist()), "expected": exp.tolist(), "actual": nrm.tolist()})
                break
            nz.deregister()
    return fails, n


def nested_attribute_paths():
    """Clamping / Normalization on an attribute given in dot notation with one, two and three components: the hooked
    value (and nothing else) is rewritten on the last object of the path"""
    fails, n = [], 0

    class Box(inferno.Module):
        def __init__(self, depth):
            super().__init__()
            self.register_buffer("weight", torch.tensor([[3.0, -4.0], [0.5, 0.25]]))
            if depth > 0:
                self.sub = Box(depth - 1) if depth == 2 else Leaf()

        def forward(self, x=None):
            return x

    class Leaf(inferno.Module):
        def __init__(self):
            super().__init__()
            self.register_buffer("weight", torch.tensor([[3.0, -4.0], [0.5, 0.25]]))

    for path in ("weight", "sub.weight", "sub.sub.weight"):
        for kind in ("clamp", "norm"):
            n += 1
            depth = path.count(".")
            net = Box(depth)
            objs = [net] + ([net.sub] if depth >= 1 else []) + ([net.sub.sub] if depth == 2 else [])
            hook = Clamping(net, path, min=-1.0, max=2.0) if kind == "clamp" else Normalization(net, path, 2, 1.0, -1)
            hook.register()
            try:
                net(1)
            except Exception as e:  # noqa: BLE001
                fails.append({"what": "C16/nested_attribute_path", "input": dict(path=path, hook=kind), "expected": "runs", "actual": f"{type(e).__name__}: {e}"})
                continue
            w0 = torch.tensor([[3.0, -4.0], [0.5, 0.25]])
            exp = w0.clamp(-1.0, 2.0) if kind == "clamp" else w0 / torch.linalg.vector_norm(w0, ord=2, dim=-1, keepdim=True)
            bad = []
            for i, o in enumerate(objs):
                want = exp if i == len(objs) - 1 else w0
                if not torch.allclose(o.weight, want, atol=1e-6):
                    bad.append(i)
            if bad:
                fails.append({"what": "C16/nested_attribute_path", "input": dict(path=path, hook=kind), "expected": "only the last object of the path is rewritten", "actual": f"objects at depth {bad} differ"})
    uniq = []
    for f in fails:
        if not any(u["what"] == f["what"] for u in uniq):
            uniq.append(f)
    return uniq, n


def sweep(tier="quick", seed=0, unsupported=()):
    failures, cases = [], 0
    for s in range(150 if tier == "quick" else 5000):
        cases += 1
        f = run_seq(seed * 100003 + s)
        if f is not None and not any(x["what"] == f["what"] for x in failures):
            failures.append(f)
    cases += 1
    f = state_hooks(seed)
    if f is not None:
        failures.append(f)
    for fn in (clamping_bounds, manual_trigger_table, normalization_small_norms, nested_attribute_paths):
        fs, k = fn()
        cases += k
        failures.extend(fs)
    return {"standins": [{"function": "Clamping one-/two-sided bounds incl. 0; StateHook manual-trigger truth table (64 combinations); Hook register/deregister/mode switch/call/delete+gc.collect() sequences (fire counts, dangling handles); Clamping/Normalization numeric posts and manual forward rules", "domain": "random sequences of length 10 over 7 ops x placements x enable flags", "cases": cases, "proved": False, "label": "bounded"}], "failures": failures}


def replay(contract, label, model, note=""):
    r = sweep("quick", 0)
    if r["failures"]:
        return {"reproduced": True, "failure": r["failures"][0], "concrete": r["failures"][0]["input"]}
    return {"reproduced": False, "search": {"points_tried": r["standins"][0]["cases"]}}


def replay_native(rp):
    i = rp["input"]
    what = rp.get("what", "")
    if what == "C16/clamping_bounds":
        fs, _ = clamping_bounds()
        return {"reproduced": bool(fs), "failure": fs[0] if fs else None}
    if what == "C16/nested_attribute_path":
        fs, _ = nested_attribute_paths()
        return {"reproduced": bool(fs), "failure": fs[0] if fs else None}
    if what == "C16/normalization_small_norms":
        fs, _ = normalization_small_norms()
        return {"reproduced": bool(fs), "failure": fs[0] if fs else None}
    if what in ("C16/manual_trigger_truth_table", "C16/module_call_runs_hook_iff_armed"):
        fs, _ = manual_trigger_table()
        return {"reproduced": bool(fs), "failure": fs[0] if fs else None}
    f = run_seq(i["seed"], len(i["ops"])) if "ops" in i else state_hooks(0)
    return {"reproduced": f is not None, "failure": f}
