from __future__ import annotations

from . import trainers as tr


def sweep(tier="quick", seed=0, unsupported=()):
    f, n = tr.sweep_c18(tier, seed)
    return {"standins": [{"function": "DelayAdjustedSTDP and DelayAdjustedKernelSTDP (shipped kernels) vs the t_delta formula on true last spike times, and vs each other; per-cell hyper-parameter overrides", "domain": "random 3x2 cells, heterogeneous fractional delays, 4 sign modes, 12 steps", "cases": n, "proved": False, "label": "bounded"}], "failures": f}


def replay(contract, label, model, note=""):
    if contract.startswith("Conv2D.layouts"):
        from . import connections as _cx

        return _cx.replay_layouts(model)
    f, n = tr.sweep_c18("quick", 0)
    if f:
        return {"reproduced": True, "failure": f[0], "concrete": f[0]["input"], "search": {"points_tried": n}}
    return {"reproduced": False, "search": {"points_tried": n}}


def replay_native(rp):
    f, n = tr.sweep_c18("quick", 0)
    hit = [x for x in f if x["what"] == rp.get("what")]
    return {"reproduced": bool(hit), "failure": hit[0] if hit else None}
