"""debug helper: run one contract in-process with full tracebacks: tools/dbg.py C15 CellTrainer.lifecycle"""
import sys, os, traceback
sys.path.insert(0, "/verif")
from pyvc import cli, harness, sym
pid, name = sys.argv[1], sys.argv[2]
for cd in cli.load_contracts(pid):
    if cd.name == name:
        try:
            r = harness.verify_contract(cd, 10000, False, False)
        except BaseException as e:
            traceback.print_exc()
            sys.exit(1)
        print(r.status, r.reason, len(r.obligations))
        for o in r.obligations:
            if o.status != "proved" and o.kind != "canary":
                print("  ", o.kind, o.label, o.status)
        if os.environ.get("DBG_ALL"):
            for o in r.obligations:
                if os.environ["DBG_ALL"] in o.label:
                    print(o.label, o.status, getattr(o, "choices", None), getattr(o, "model", None))
        if os.environ.get("DBG_NOTE"):
            seen=set()
            for o in r.obligations:
                if o.status != "proved" and o.kind != "canary" and o.label not in seen:
                    seen.add(o.label); print("NOTE", o.label, "|", o.note[:300], "|", o.model)
        if os.environ.get("DBG_UNK"):
            for o in r.obligations:
                if o.status == "unknown":
                    print("UNK", o.label, o.path, "|", o.note[:200], o.time_s)
        if os.environ.get("DBG_LABELS"):
            from collections import Counter
            for k, v in Counter((o.label, o.status) for o in r.obligations).items(): print("LAB", k, v)
