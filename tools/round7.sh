#!/bin/bash
# tools/round7.sh <ID>...: confirm round-7 sub-agent changes (/tmp/seed7/<ID>) and run the owning check on a scratch worktree
for ID in "$@"; do
  NAME=${ID}h
  SEED_SRC=/tmp/seed7 /verif/tools/seed_verify.sh $ID $NAME > /tmp/seed7/$ID/verify.log 2>&1
  tail -1 /tmp/seed7/$ID/verify.log
  if [ -d /verif/seeded/$NAME ]; then /verif/tools/seed_run.sh $NAME $ID quick > /tmp/seed7/$ID/run.log 2>&1; tail -1 /tmp/seed7/$ID/run.log; fi
done
