#!/usr/bin/env python3
"""Regenerate MANIFEST.json checks/not_applicable from tools/manifest_data.py (keeps MANIFEST valid at all times)."""
import json, os, sys
ROOT = os.path.dirname(os.path.dirname(os.path.abspath(__file__)))
sys.path.insert(0, ROOT)
from tools.manifest_data import CHECKS, NOT_APPLICABLE  # noqa
m = json.load(open(os.path.join(ROOT, "MANIFEST.json")))
m["checks"] = []
for pid, d in sorted(CHECKS.items()):
    m["checks"].append({
        "property_id": pid,
        "quick_cmd": f"./check {pid} --tier quick",
        "thorough_cmd": f"./check {pid} --tier thorough",
        "evidence_file": f"evidence/{pid}.json",
        "replay_cmd_template": f"./check {pid} --replay {{path}}",
        "engine": "pyvc",
        "level_claimed": {"category": "proof", "text": d["text"], "design_ref": d.get("design_ref", f"DESIGN.md section 3 {pid}")},
        "level_note": d["note"],
        "technique": d["technique"],
    })
m["engines"][0]["serves_properties"] = sorted(CHECKS)
ids = [json.loads(l)["id"] for l in open(os.path.join(ROOT, "properties.jsonl"))]
m["not_applicable"] = [{"property_id": p, "reason": NOT_APPLICABLE.get(p, "not yet brought under contract in this build; no check is claimed for it")} for p in ids if p not in CHECKS]
json.dump(m, open(os.path.join(ROOT, "MANIFEST.json"), "w"), indent=1)
import jsonschema
jsonschema.validate(m, json.load(open("/root/.vp/MANIFEST.schema.json")))
print("MANIFEST ok:", len(m["checks"]), "checks,", len(m["not_applicable"]), "not applicable")
