#!/bin/bash
# tools/seed_verify.sh <ID> [<name>]: confirm a sub-agent's seeded change on a fresh scratch worktree of /repo HEAD:
#  demo passes unchanged, fails with the patch, and the pinned suite still passes with the patch.
# On success copies patch+demo to /verif/seeded/<name>/ (meta.json written by the caller).
set -u
ID=$1; NAME=${2:-$1}
SRC=${SEED_SRC:-/tmp/seed}/$ID
W=/tmp/seedchk_$NAME
rm -rf $W; git -C /repo worktree prune; git -C /repo worktree add -q --detach $W HEAD || exit 2
cp $SRC/demo_$ID.py $W/ || exit 2
cd $W
echo "== demo on unchanged HEAD"; /venv/bin/python demo_$ID.py > /tmp/seedchk_$NAME.un.log 2>&1; U=$?; tail -2 /tmp/seedchk_$NAME.un.log
if ! git apply --check $SRC/patch.diff 2>/dev/null; then echo "PATCH DOES NOT APPLY to HEAD"; git -C /repo worktree remove --force $W; exit 2; fi
git apply $SRC/patch.diff
echo "== demo with patch"; /venv/bin/python demo_$ID.py > /tmp/seedchk_$NAME.ch.log 2>&1; C=$?; tail -3 /tmp/seedchk_$NAME.ch.log | cut -c1-300
echo "== suite with patch"; /venv/bin/python /verif/tools/baseline.py $W; S=$?
echo "RESULT unchanged_exit=$U changed_exit=$C suite_exit=$S"
if [ $U -eq 0 ] && [ $C -ne 0 ]; then
  mkdir -p /verif/seeded/$NAME; cp $SRC/patch.diff /verif/seeded/$NAME/patch.diff; cp $SRC/demo_$ID.py /verif/seeded/$NAME/demo.py
  echo "{\"unchanged_exit\": $U, \"changed_exit\": $C, \"suite_missing_exit\": $S}" > /verif/seeded/$NAME/verify.json
fi
cd /; git -C /repo worktree remove --force $W
