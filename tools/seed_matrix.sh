#!/bin/bash
# tools/seed_matrix.sh [pairs...]: for each "<seed>:<prop>" (default: the diagonal) apply the seeded change to /repo
# (git apply), run the check, undo it (git checkout -- .).  Output: one line per pair.
cd /verif
PAIRS="$@"
if [ -z "$PAIRS" ]; then for i in $(ls seeded); do PAIRS="$PAIRS $i:$i"; done; fi
for pr in $PAIRS; do
  S=${pr%%:*}; P=${pr##*:}
  if [ -n "$(git -C /repo status --porcelain)" ]; then echo "repo dirty, abort"; exit 2; fi
  git -C /repo apply /verif/seeded/$S/patch.diff || { echo "$S:$P patch-does-not-apply"; continue; }
  ./check $P --tier quick > /tmp/sm_$S_$P.log 2>&1; RC=$?
  git -C /repo checkout -- .
  NV=$(grep -c "^VIOLATION" /tmp/sm_$S_$P.log)
  DED=$(grep "^VIOLATION" /tmp/sm_$S_$P.log | grep -vc -- "-native-")
  echo "seed=$S check=$P exit=$RC violations=$NV deductive=$DED"
done
git -C /verif checkout -q -- evidence 2>/dev/null
