"""debug helper: run one in-memory mutant of a property's contract modules in-process: tools/mut1.py C14 3"""
import sys, time, faulthandler; faulthandler.dump_traceback_later(int(__import__("os").environ.get("DUMP_AFTER","100")), exit=True); sys.path.insert(0,"/verif")
from pyvc import cli, repo, harness
import importlib
pid, mi = sys.argv[1], int(sys.argv[2])
cds = cli.load_contracts(pid)
muts=[]
for m in cli.prop_modules(pid): muts.extend(getattr(importlib.import_module(m),"MUTANTS",[]))
m=muts[mi]; print(m.get("name") or m["old"][:60])
new=cli.apply_mutant(m)
if new is None: print("stale"); sys.exit()
repo.set_source_override(m["file"], new)
for i,c in enumerate(cds):
    if c.name in m.get("contracts",[]) or (not m.get("contracts") and any(t[1]==m.get("func") for t in c.targets)):
        t=time.time(); r=harness.verify_contract_safe(c, 10000, stop_on_refuted=True)
        bad=[o.label for o in r.obligations if o.kind!='canary' and o.status=='refuted']
        print("  ",c.name,r.status,r.reason[:100],len(r.obligations),"refuted:",bad[:3],round(time.time()-t,1),"s")
