#!/bin/bash
# tools/seed_run.sh <seed-name> <property> [tier]: run a check against a seeded change applied to a scratch worktree
# of /repo HEAD (VERIF_REPO override; /repo itself is not touched). Prints the check's tail and exit code.
NAME=$1; PROP=$2; TIER=${3:-quick}
W=/tmp/seedrun_${NAME}_$$
git -C /repo worktree prune
git -C /repo worktree add -q --detach $W HEAD || exit 2
( cd $W && git apply /verif/seeded/$NAME/patch.diff ) || { echo "patch does not apply"; git -C /repo worktree remove --force $W; exit 2; }
cd /verif
VERIF_REPO=$W ./check $PROP --tier $TIER > /tmp/seedrun_${NAME}.log 2>&1; RC=$?
grep -c "^VIOLATION" /tmp/seedrun_${NAME}.log | sed "s/^/violations: /"
grep "^VIOLATION\|CHECKER-ERROR\|^\[" /tmp/seedrun_${NAME}.log | head -6 | cut -c1-220
echo "seed=$NAME prop=$PROP exit=$RC"
git -C /repo worktree remove --force $W
git -C /verif checkout -q -- evidence 2>/dev/null
exit 0
