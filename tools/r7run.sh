#!/bin/bash
# tools/r7run.sh <ID> [prop]: run a check against the stored round-7 seed <ID>h on a scratch worktree (VERIF_REPO)
ID=$1; PROP=${2:-$1}; W=/tmp/r7run_${ID}_$PROP
git -C /repo worktree prune; rm -rf $W
git -C /repo worktree add -q --detach $W HEAD || exit 2
( cd $W && git apply /verif/seeded/${ID}h/patch.diff ) || { echo "patch does not apply"; git -C /repo worktree remove --force $W; exit 2; }
cd /verif
VERIF_REPO=$W ./check $PROP --tier quick > /tmp/r7run_${ID}_$PROP.log 2>&1; RC=$?
echo "violations: $(grep -c '^VIOLATION' /tmp/r7run_${ID}_$PROP.log) deductive: $(grep '^VIOLATION' /tmp/r7run_${ID}_$PROP.log | grep -vc -- '-native-')"
grep "^VIOLATION\|CHECKER-ERROR\|^\[" /tmp/r7run_${ID}_$PROP.log | head -6 | cut -c1-240
echo "seed=$ID prop=$PROP exit=$RC"
git -C /repo worktree remove --force $W
git -C /verif checkout -q -- evidence/$PROP.json 2>/dev/null
