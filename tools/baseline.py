#!/usr/bin/env python3
"""Run the pinned baseline suite on a tree (default /repo) and compare with BASELINE.json stable_pass."""
import json, subprocess, sys, tempfile, xml.etree.ElementTree as ET, os
root = sys.argv[1] if len(sys.argv) > 1 else "/repo"
b = json.load(open("/root/.vp/BASELINE.json"))
with tempfile.NamedTemporaryFile(suffix=".xml", delete=False) as f:
    out = f.name
subprocess.run(f"cd {root} && /venv/bin/python -m pytest -ra -q -p no:cacheprovider --timeout=900 --continue-on-collection-errors --junitxml={out} > /dev/null 2>&1", shell=True)
passed = set()
for tc in ET.parse(out).getroot().iter("testcase"):
    ok = not any(c.tag in ("failure", "error", "skipped") for c in tc)
    if ok:
        passed.add(f"{tc.get('classname')}::{tc.get('name')}")
os.unlink(out)
missing = [t for t in b["stable_pass"] if t not in passed]
print(f"stable_pass={len(b['stable_pass'])} passed_now={len(passed)} missing={len(missing)}")
for m in missing[:20]:
    print("  MISSING", m)
sys.exit(1 if missing else 0)
